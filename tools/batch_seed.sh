#!/bin/bash
# batch_seed.sh "<dir> <pkg> <run> <ID>" ... : confirm then try each; results to stdout
for x in "$@"; do set -- $x; echo "=== $1 ($4)"; /verif/tools/confirm_seed.sh /tmp/seedout/$1 $2 $3 2>&1 | grep -E "seed=|CONFIRMED|APPLY"; done
