#!/bin/bash
# round3.sh <outdir-of-agent> <ID> [<ID>...] — confirm a sub-agent's seeded change (NOTES.md: PKGDIR/RUN) and try the checks
D=$(readlink -f $1); shift
PKG=$(grep -m1 '^PKGDIR:' $D/NOTES.md | sed 's/PKGDIR:\s*//; s/\s.*//')
RUN=$(grep -m1 '^RUN:' $D/NOTES.md | sed 's/RUN:\s*//; s/\s.*//')
echo "== $(basename $D) pkg=$PKG run=$RUN"
echo "NEEDS: $(grep -m1 '^NEEDS:' $D/NOTES.md | cut -c8-400)"
/verif/tools/confirm_seed.sh $D $PKG "$RUN" 2>&1 | grep -E "seed=|CONFIRMED|APPLY|FAIL" | head
/verif/tools/tryseed_wt.sh $D/patch.diff "$@"
