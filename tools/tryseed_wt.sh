#!/bin/bash
# tryseed_wt.sh <patch> <ID> [<ID>...]  — like tryseed.sh but in a scratch worktree of /repo HEAD (VERIF_REPO): /repo is not touched,
# several can run side by side. Prints one line per check: rc and the first matchers. TIER=thorough for the thorough tier.
P=$(readlink -f $1); shift
cd "$(dirname "$(readlink -f "$0")")/.."
WT=$(mktemp -d /tmp/tw-XXXXXX)
git -C /repo worktree add --detach -q $WT HEAD >/dev/null 2>&1 || { echo "WORKTREE-FAILED"; exit 2; }
h=$(python3 -c "import zlib;print('%08x'%zlib.crc32(b'$WT'))")
trap 'rm -rf /verif/.build-alt/$h; git -C /repo worktree remove --force $WT >/dev/null 2>&1; rm -rf $WT' EXIT
git -C $WT apply $P || { echo "PATCH-DOES-NOT-APPLY"; exit 2; }
for id in "$@"; do
  L=$(mktemp /tmp/tw-log-XXXXXX)
  VERIF_REPO=$WT ./vcheck $id ${TIER:-quick} > $L 2>&1; rc=$?
  echo "$id rc=$rc :: $(grep -m3 'matcher=' $L | tr -s ' ' | tr '\n' ';' | cut -c1-300) :: $(grep -E "^$id (quick|thorough)" $L | tail -1)"
  [ $rc -eq 2 ] && grep -m3 -A8 INFRASTRUCTURE $L | head -30
  [ -n "$KEEPLOG" ] && cp $L $KEEPLOG.$id
  rm -f $L
done
