#!/bin/bash
# tryseed.sh <patch> <ID> [tier]  — apply a seeded change to /repo, run the check, undo it.
P=$1; ID=$2; T=${3:-quick}
cd /repo && git diff --quiet || { echo "/repo dirty"; exit 2; }
git -C /repo apply $P || exit 2
cd /verif && ./vcheck $ID $T; RC=$?
git -C /repo checkout -- .
echo "tryseed rc=$RC"
