#!/bin/bash
# keep3.sh <name> <property> "<detected-by>" — store a round-3 seed from /tmp/seedout${R:-3}/<name> (NOTES.md gives PKGDIR/RUN/NEEDS)
D=/tmp/seedout${R:-3}/$1
PKG=$(grep -m1 '^PKGDIR:' $D/NOTES.md | sed 's/PKGDIR:\s*//; s/\s.*//')
RUN=$(grep -m1 '^RUN:' $D/NOTES.md | sed 's/RUN:\s*//; s/\s.*//')
NEEDS=$(grep -m1 '^NEEDS:' $D/NOTES.md | cut -c8-)
python3 /verif/tools/keepseed.py $D $1 $2 $PKG "$RUN" "$3" "$NEEDS"
