#!/bin/bash
# confirm_seed.sh <seeddir> <pkgdir-relative> <go test -run regex>
# In a fresh scratch worktree of /repo: (1) demo passes on the unchanged tree, (2) with patch: builds,
# pinned suite passes (minus the 4 offline failures), demo fails. Prints a summary; removes the worktree.
set -u
SD=$1; PKG=$2; RUN=$3
G=/root/go/pkg/mod/golang.org/toolchain@v0.0.1-go1.24.0.linux-amd64/bin/go
export GOTOOLCHAIN=local GOFLAGS=-mod=mod GOPROXY=off
WT=$(mktemp -d /tmp/confirm-XXXXXX)
git -C /repo worktree add --detach -q $WT HEAD || exit 2
trap 'git -C /repo worktree remove --force $WT; rm -rf $WT' EXIT
cd $WT
DEMO=$(ls $SD/*_test.go | head -1)
cp $DEMO $WT/$PKG/zz_seed_demo_test.go
$G test -vet=off -count=1 -run "$RUN" ./$PKG > $WT/clean.log 2>&1; RC_CLEAN=$?
git apply $SD/patch.diff || { echo "PATCH DOES NOT APPLY"; exit 2; }
$G build ./... > $WT/build.log 2>&1; RC_BUILD=$?
$G test -vet=off -count=1 -run "$RUN" ./$PKG > $WT/seeded.log 2>&1; RC_SEEDED=$?
rm $WT/$PKG/zz_seed_demo_test.go
$G test -vet=off -count=1 ./... > $WT/suite.log 2>&1
KNOWN="TestNewClient|TestStatsd_BadSnapshot|TestStatsd_Configure|TestJoin"
FAILS=$(grep -E "^--- FAIL" $WT/suite.log | grep -vE "$KNOWN" | wc -l)
if [ $FAILS -ne 0 ]; then # load-sensitive tests (e.g. listener TestTimeout): retry the failing packages once, serially
  PKGS=$(grep -E "^FAIL\s+github.com" $WT/suite.log | awk '{print $2}')
  $G test -vet=off -count=1 -p 1 $PKGS > $WT/suite.log 2>&1
  FAILS=$(grep -E "^--- FAIL" $WT/suite.log | grep -vE "$KNOWN" | wc -l)
fi
echo "seed=$SD demo_on_clean_rc=$RC_CLEAN build_rc=$RC_BUILD demo_on_seeded_rc=$RC_SEEDED unexpected_suite_failures=$FAILS"
if [ $RC_CLEAN -eq 0 ] && [ $RC_BUILD -eq 0 ] && [ $RC_SEEDED -ne 0 ] && [ $FAILS -eq 0 ]; then echo CONFIRMED; else echo NOT-CONFIRMED; tail -n 5 $WT/clean.log; tail -n 5 $WT/seeded.log; grep -E "^--- FAIL" $WT/suite.log; fi
