#!/bin/bash
# batch2.sh "<dir> <pkg> <run> <ID>" ... : for round-2 seeds under /tmp/seedout2: confirm, then try the check
for x in "$@"; do set -- $x; echo "=== $1 ($4)"; /verif/tools/confirm_seed.sh /tmp/seedout2/$1 $2 $3 2>&1 | grep -E "seed=|CONFIRMED|APPLY"; /verif/tools/tryseed.sh /tmp/seedout2/$1/patch.diff $4 2>&1 | grep -E "VIOLATION|matcher|tryseed|quick seed|INFRA" | cut -c1-220 | head -5; done
