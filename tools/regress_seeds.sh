#!/bin/bash
# regress_seeds.sh [-j N] [seed-name ...] — re-run every stored seeded change (default: all under /verif/seeded) against the
# quick check of its property, each in its own scratch worktree of /repo HEAD (VERIF_REPO, /repo itself is never touched),
# N at a time. A seed counts as caught when the check exits 1 with a VIOLATION line. Worktrees and alt builds are removed.
J=3
if [ "$1" = "-j" ]; then J=$2; shift 2; fi
cd "$(dirname "$(readlink -f "$0")")/.."
names=("$@")
[ ${#names[@]} -eq 0 ] && names=($(ls seeded | grep -v "discarded\|obsolete"))
OUT=$(mktemp -d /tmp/regress-XXXXXX)
one() {
  n=$1; OUT=$2
  prop=$(python3 -c "import json;print(json.load(open('seeded/$n/meta.json'))['property'])")
  also=$(python3 -c "import json;print(' '.join(json.load(open('seeded/$n/meta.json')).get('also_checks',[])))")
  WT=$(mktemp -d /tmp/rs-$n-XXXXXX)
  git -C /repo worktree add --detach -q $WT HEAD >/dev/null 2>&1 || { echo "$n WORKTREE-FAILED"; return; }
  if ! git -C $WT apply /verif/seeded/$n/patch.diff 2>$OUT/$n.apply; then echo "$n ($prop) PATCH-DOES-NOT-APPLY"; else
    res=""
    for p in $prop $also; do
      VERIF_REPO=$WT ./vcheck $p quick > $OUT/$n.$p.log 2>&1; rc=$?
      m=$(grep -m2 "matcher=" $OUT/$n.$p.log | tr -s ' ' | tr '\n' ';' | cut -c1-160)
      res="$res $p:rc=$rc"
      [ $rc -eq 1 ] && res="$res CAUGHT [$m]"
      [ $rc -eq 0 ] && res="$res MISSED"
      [ $rc -eq 2 ] && res="$res INFRA [$(grep -m1 INFRASTRUCTURE $OUT/$n.$p.log | cut -c1-120)]"
    done
    echo "$n$res"
  fi
  h=$(python3 -c "import zlib;print('%08x'%zlib.crc32(b'$WT'))")
  rm -rf .build-alt/$h
  git -C /repo worktree remove --force $WT >/dev/null 2>&1; rm -rf $WT
}
export -f one
printf "%s\n" "${names[@]}" | xargs -P $J -I{} bash -c "one {} $OUT"
echo "logs: $OUT"
