#!/bin/bash
# runall.sh [tier] — every claimed check once (VERIF_SEED honoured), evidence + MANIFEST validated against the schemas.
T=${1:-quick}
cd "$(dirname "$(readlink -f "$0")")/.."
rc_all=0
for id in $(python3 -c "import json;print(' '.join(c['property_id'] for c in json.load(open('MANIFEST.json'))['checks']))"); do
  s=$(date +%s)
  out=$(./vcheck $id $T 2>&1); rc=$?
  e=$(( $(date +%s) - s ))
  line=$(echo "$out" | grep -E "^$id $T" | tail -1)
  echo "$id rc=$rc ${e}s :: $line"
  echo "$out" | grep -E "^VIOLATION|INFRASTRUCTURE" | head -3
  [ $rc -ne 0 ] && rc_all=1
done
python3-vt - <<'P'
import json,jsonschema,glob,sys
m=json.load(open('MANIFEST.json'))
jsonschema.validate(m,json.load(open('/root/.vp/MANIFEST.schema.json')))
es=json.load(open('/root/.vp/EVIDENCE.schema.json'))
bad=0
for c in m['checks']:
    try:
        jsonschema.validate(json.load(open('evidence/'+c['evidence_file'].split('/')[-1])),es)
    except Exception as e:
        bad+=1; print("EVIDENCE INVALID",c['property_id'],str(e)[:200])
print("manifest valid; evidence files invalid:",bad)
P
exit $rc_all
