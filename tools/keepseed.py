#!/usr/bin/env python3
"""keepseed.py <srcdir> <name> <property> <pkgdir> <run-regex> <detected-by> <needs...>  — store a confirmed seeded change"""
import json, os, shutil, sys, glob
src, name, prop, pkg, run, detected = sys.argv[1:7]
needs = " ".join(sys.argv[7:])
dst = os.path.join("/verif/seeded", name)
os.makedirs(dst, exist_ok=True)
shutil.copy(os.path.join(src, "patch.diff"), dst)
for f in glob.glob(os.path.join(src, "*_test.go")) + glob.glob(os.path.join(src, "*.go")):
    shutil.copy(f, os.path.join(dst, os.path.basename(f) + ".txt"))
if os.path.exists(os.path.join(src, "NOTES.md")):
    shutil.copy(os.path.join(src, "NOTES.md"), dst)
json.dump({
    "property": prop, "needs_to_manifest": needs,
    "demonstration": {"place_in": pkg, "file": "the *_test.go.txt next to this file (renamed so the harness module ignores it)", "run": "go test -vet=off -count=1 -run '%s' ./%s" % (run, pkg)},
    "confirmed_with": "tools/confirm_seed.sh (scratch worktree: demo passes on HEAD, patch applies and builds, pinned suite passes, demo fails with the patch)",
    "check_run": "tools/tryseed.sh seeded/%s/patch.diff %s quick" % (name, prop),
    "detected_by": detected,
}, open(os.path.join(dst, "meta.json"), "w"), indent=1)
print("kept", dst)
