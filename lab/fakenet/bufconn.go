// Package fakenet provides the in-memory transports the harnesses attach to the broker: a buffered
// full-duplex net.Conn whose Write is one atomic append (like a kernel socket) and never blocks, with
// write logging, seeded read chunking, half-close and abrupt close. Data and io.EOF are never
// returned by the same Read (TCP/TLS never do).
package fakenet

import (
	"errors"
	"io"
	"net"
	"os"
	"sync"
	"time"
)

type addr string

func (a addr) Network() string { return "fake" }
func (a addr) String() string  { return string(a) }

// WriteRec is one Write call as seen by the transport.
type WriteRec struct {
	Off int64
	Len int
}

// pipe is one direction.
type pipe struct {
	mu      sync.Mutex
	cond    *sync.Cond
	buf     []byte
	total   int64 // bytes ever written
	wclosed bool  // writer closed: reader gets EOF after draining
	rclosed bool  // reader closed: reads fail, writes fail
	writes  []WriteRec
	logW    bool
	chunk   func(avail int) int // how many bytes the next Read may return (>=1)
	onWrite func(n int)         // delay/yield hook, called before appending (outside lock)
	capture []byte              // copy of everything ever written (if keep)
	keep    bool
	eofWithData bool // the read that drains the last byte of a closed stream returns (n, io.EOF), as crypto/tls does for a close_notify right behind the data
	failErr error // when set, Write fails with it (a write deadline that expired on a stalled peer, EPIPE)
}

func newPipe() *pipe {
	p := &pipe{}
	p.cond = sync.NewCond(&p.mu)
	return p
}

// Conn is one end of a BufConn pair.
type Conn struct {
	rd, wr   *pipe
	name     string
	dmu      sync.Mutex
	rdl      time.Time
	timer    *time.Timer
	closed   bool
	honour   bool // honour read deadlines (off by default, see SetReadDeadline)
	closeCh  chan struct{}
	onceClos sync.Once
}

// Pair returns the two ends (a, b): bytes written on a are read on b and vice versa.
func Pair() (*Conn, *Conn) {
	ab, ba := newPipe(), newPipe()
	a := &Conn{rd: ba, wr: ab, name: "a", closeCh: make(chan struct{})}
	b := &Conn{rd: ab, wr: ba, name: "b", closeCh: make(chan struct{})}
	return a, b
}

// EOFWithData makes the Read that takes the last byte of a stream whose writer has closed return (n, io.EOF) in one call
// (plain TCP returns the EOF on the next call; crypto/tls hands out data and the close_notify together).
func (c *Conn) EOFWithData() { c.rd.mu.Lock(); c.rd.eofWithData = true; c.rd.mu.Unlock() }

// HonourDeadlines makes this end apply read deadlines as a socket does.
func (c *Conn) HonourDeadlines() { c.dmu.Lock(); c.honour = true; c.dmu.Unlock() }

// FailWrites makes every later Write on this end fail with err (nil restores normal service) while reads go on as before -
// what a socket does whose write deadline keeps expiring because the peer has stopped reading.
func (c *Conn) FailWrites(err error) { c.wr.mu.Lock(); c.wr.failErr = err; c.wr.mu.Unlock() }

// LogWrites makes the conn remember every Write call made on it (offset, length).
func (c *Conn) LogWrites() { c.wr.mu.Lock(); c.wr.logW = true; c.wr.mu.Unlock() }

// KeepWritten makes the conn keep a copy of every byte written on it.
func (c *Conn) KeepWritten() { c.wr.mu.Lock(); c.wr.keep = true; c.wr.mu.Unlock() }

// Written returns the copy kept by KeepWritten.
func (c *Conn) Written() []byte {
	c.wr.mu.Lock()
	defer c.wr.mu.Unlock()
	return append([]byte(nil), c.wr.capture...)
}

// Writes returns the log of Write calls.
func (c *Conn) Writes() []WriteRec {
	c.wr.mu.Lock()
	defer c.wr.mu.Unlock()
	return append([]WriteRec(nil), c.wr.writes...)
}

// SetReadChunker limits what each Read on this conn returns.
func (c *Conn) SetReadChunker(f func(avail int) int) { c.rd.mu.Lock(); c.rd.chunk = f; c.rd.mu.Unlock() }

// SetWriteHook installs a function called at the start of every Write on this conn (delays).
func (c *Conn) SetWriteHook(f func(n int)) { c.wr.mu.Lock(); c.wr.onWrite = f; c.wr.mu.Unlock() }

var errClosed = errors.New("fakenet: use of closed connection")

type timeoutErr struct{}

func (timeoutErr) Error() string   { return "fakenet: i/o timeout" }
func (timeoutErr) Timeout() bool   { return true }
func (timeoutErr) Temporary() bool { return true }

func (c *Conn) Read(p []byte) (int, error) {
	if len(p) == 0 {
		return 0, nil
	}
	r := c.rd
	r.mu.Lock()
	defer r.mu.Unlock()
	for {
		if r.rclosed {
			return 0, errClosed
		}
		if len(r.buf) > 0 {
			n := len(r.buf)
			if n > len(p) {
				n = len(p)
			}
			if r.chunk != nil {
				if k := r.chunk(n); k >= 1 && k < n {
					n = k
				}
			}
			copy(p, r.buf[:n])
			r.buf = r.buf[n:]
			if len(r.buf) == 0 {
				r.buf = nil
				if r.eofWithData && r.wclosed {
					return n, io.EOF
				}
			}
			return n, nil
		}
		if r.wclosed {
			return 0, io.EOF
		}
		c.dmu.Lock()
		dl := c.rdl
		c.dmu.Unlock()
		if !dl.IsZero() && !time.Now().Before(dl) {
			return 0, os.ErrDeadlineExceeded
		}
		r.cond.Wait()
	}
}

func (c *Conn) Write(p []byte) (int, error) {
	w := c.wr
	w.mu.Lock()
	hook := w.onWrite
	w.mu.Unlock()
	if hook != nil {
		hook(len(p))
	}
	w.mu.Lock()
	defer w.mu.Unlock()
	if w.wclosed || w.rclosed {
		return 0, errClosed
	}
	if w.failErr != nil {
		return 0, w.failErr
	}
	if w.logW {
		w.writes = append(w.writes, WriteRec{Off: w.total, Len: len(p)})
	}
	if w.keep {
		w.capture = append(w.capture, p...)
	}
	w.buf = append(w.buf, p...)
	w.total += int64(len(p))
	w.cond.Broadcast()
	return len(p), nil
}

// Close closes both directions of this end: the peer reads EOF after draining what was written,
// and the peer's writes fail.
func (c *Conn) Close() error {
	c.onceClos.Do(func() {
		c.wr.mu.Lock()
		c.wr.wclosed = true
		c.wr.cond.Broadcast()
		c.wr.mu.Unlock()
		c.rd.mu.Lock()
		c.rd.rclosed = true
		c.rd.buf = nil
		c.rd.cond.Broadcast()
		c.rd.mu.Unlock()
		close(c.closeCh)
	})
	return nil
}

// CloseWrite half-closes: the peer reads EOF after draining; this end can still read.
func (c *Conn) CloseWrite() {
	c.wr.mu.Lock()
	c.wr.wclosed = true
	c.wr.cond.Broadcast()
	c.wr.mu.Unlock()
}

// Closed reports whether Close was called on this end.
func (c *Conn) Closed() <-chan struct{} { return c.closeCh }

// PeerClosedWrite tells whether the other end has closed its write side (we will read EOF).
func (c *Conn) PeerClosedWrite() bool {
	c.rd.mu.Lock()
	defer c.rd.mu.Unlock()
	return c.rd.wclosed
}

// Buffered returns the number of bytes waiting to be read on this end.
func (c *Conn) Buffered() int {
	c.rd.mu.Lock()
	defer c.rd.mu.Unlock()
	return len(c.rd.buf)
}

// Consumed returns how many bytes written by the peer have been read on this end so far.
func (c *Conn) Consumed() int64 {
	c.rd.mu.Lock()
	defer c.rd.mu.Unlock()
	return c.rd.total - int64(len(c.rd.buf))
}

// TakeAll removes and returns everything buffered for reading, without blocking.
func (c *Conn) TakeAll() []byte {
	c.rd.mu.Lock()
	defer c.rd.mu.Unlock()
	b := c.rd.buf
	c.rd.buf = nil
	return b
}

// WaitData blocks until at least one byte is buffered for reading, EOF, or the timeout.
// Returns (hasData, eof, timedOut).
func (c *Conn) WaitData(d time.Duration) (bool, bool, bool) {
	deadline := time.Now().Add(d)
	t := time.AfterFunc(d, func() {
		c.rd.mu.Lock()
		c.rd.cond.Broadcast()
		c.rd.mu.Unlock()
	})
	defer t.Stop()
	c.rd.mu.Lock()
	defer c.rd.mu.Unlock()
	for {
		if len(c.rd.buf) > 0 {
			return true, false, false
		}
		if c.rd.wclosed || c.rd.rclosed {
			return false, true, false
		}
		if !time.Now().Before(deadline) {
			return false, false, true
		}
		c.rd.cond.Wait()
	}
}

func (c *Conn) LocalAddr() net.Addr  { return addr("fake-" + c.name) }
func (c *Conn) RemoteAddr() net.Addr { return addr("fake-peer-of-" + c.name) }

func (c *Conn) SetDeadline(t time.Time) error { return c.SetReadDeadline(t) }
// SetReadDeadline is accepted and, unless HonourDeadlines was called, ignored: the broker drops connections that stay silent
// for 120 s of wall-clock time, the scripted clients stand for clients that keep their connection alive, and a run that takes
// longer on a loaded machine must not turn into "lost messages" (seen with large audiences under -race at load average 100).
func (c *Conn) SetReadDeadline(t time.Time) error {
	c.dmu.Lock()
	if !c.honour {
		c.dmu.Unlock()
		return nil
	}
	c.rdl = t
	if c.timer != nil {
		c.timer.Stop()
		c.timer = nil
	}
	if !t.IsZero() {
		d := time.Until(t)
		if d < 0 {
			d = 0
		}
		c.timer = time.AfterFunc(d, func() {
			c.rd.mu.Lock()
			c.rd.cond.Broadcast()
			c.rd.mu.Unlock()
		})
	}
	c.dmu.Unlock()
	return nil
}
func (c *Conn) SetWriteDeadline(t time.Time) error { return nil }
