//go:build verif

// crdtlab — C04 (convergence of the replicated state) and C13 part 1 (the delta a merge returns).
// Real event.State replicas (volatile and durable), a logical clock in place of crdt.Now, a shadow
// max-lattice per replica checked after every step, and an independently computed delta.
package crdtlab

import (
	"github.com/kelindar/binary/nocopy"
	"fmt"
	"os"
	"sort"
	"strings"
	"sync"
	"sync/atomic"
	"testing"

	"github.com/emitter-io/emitter/internal/event"
	"github.com/emitter-io/emitter/internal/event/crdt"
	"github.com/emitter-io/emitter/internal/message"
	"github.com/emitter-io/emitter/internal/security"
	"github.com/emitter-io/emitter/verif/lab/vk"
	"github.com/weaveworks/mesh"
)

var clock int64

func init() { crdt.Now = func() int64 { return atomic.LoadInt64(&clock) } }

func setClock(t int64) { atomic.StoreInt64(&clock, t) }

// ---- event universe ------------------------------------------------------------------------

type evSpec struct {
	typ uint8
	ev  event.Event
	key string
	nm  string
}

func universe() []evSpec {
	var u []evSpec
	for i := 0; i < 3; i++ {
		b := event.Ban(fmt.Sprintf("bannedkey-%d", i))
		u = append(u, evSpec{event.VerifBans, &b, b.Key(), fmt.Sprintf("ban%d", i)})
	}
	for i := 0; i < 3; i++ {
		s := &event.Subscription{Peer: uint64(1 + i%2), Conn: security.ID(100 + i), Ssid: message.Ssid{7, uint32(10 + i)}, Channel: []byte(fmt.Sprintf("a/%d/", i))}
		u = append(u, evSpec{event.VerifSubs, s, s.Key(), fmt.Sprintf("sub%d", i)})
	}
	for i := 0; i < 2; i++ {
		c := &event.Connection{Peer: uint64(1 + i), Conn: security.ID(200 + i), ClientID: []byte("cid")}
		u = append(u, evSpec{event.VerifConns, c, c.Key(), fmt.Sprintf("conn%d", i)})
	}
	// entries whose key + value is far above one kilobyte (a long channel or user name, a long last-will message, a long ban
	// key): size classes of caches and codecs differ from the small entries above
	big := &event.Subscription{Peer: 2, Conn: security.ID(150), Ssid: message.Ssid{7, 20, 21, 22}, User: nocopy.String(strings.Repeat("u", 300)), Channel: []byte(strings.Repeat("long/", 260))}
	u = append(u, evSpec{event.VerifSubs, big, big.Key(), "subBig"})
	huge := &event.Subscription{Peer: 1, Conn: security.ID(151), Ssid: message.Ssid{7, 30}, Channel: []byte(strings.Repeat("x", 4000) + "/")}
	u = append(u, evSpec{event.VerifSubs, huge, huge.Key(), "subHuge"})
	cw := &event.Connection{Peer: 2, Conn: security.ID(250), WillFlag: true, WillTopic: []byte("w/"), WillMessage: []byte(strings.Repeat("W", 3000)), ClientID: []byte("cid-big")}
	u = append(u, evSpec{event.VerifConns, cw, cw.Key(), "connBigWill"})
	lb := event.Ban(strings.Repeat("K", 1500))
	u = append(u, evSpec{event.VerifBans, &lb, lb.Key(), "banLong"})
	return u
}

type tpair struct{ add, del int64 }
type shadow map[string]tpair // "typ|key" -> times

func skey(e evSpec) string { return fmt.Sprintf("%d|%s", e.typ, e.key) }

func (s shadow) clone() shadow {
	c := shadow{}
	for k, v := range s {
		c[k] = v
	}
	return c
}

// mergeModel: point-wise max; returns the independently computed delta.
func (s shadow) mergeModel(in shadow) shadow {
	d := shadow{}
	for k, iv := range in {
		lv := s[k]
		var dv tpair
		if iv.add > lv.add {
			dv.add = iv.add
			lv.add = iv.add
		}
		if iv.del > lv.del {
			dv.del = iv.del
			lv.del = iv.del
		}
		if dv.add != 0 || dv.del != 0 {
			d[k] = dv
			s[k] = lv
		}
	}
	return d
}

func readState(st *event.State) shadow {
	out := shadow{}
	for _, typ := range []uint8{event.VerifSubs, event.VerifBans, event.VerifConns} {
		for k, v := range st.VerifEntries(typ) {
			out[fmt.Sprintf("%d|%s", typ, k)] = tpair{v[0], v[1]}
		}
	}
	return out
}

func diffShadow(got, want shadow, names map[string]string) string {
	var d []string
	for k, w := range want {
		if g, ok := got[k]; !ok || g != w {
			d = append(d, fmt.Sprintf("%s: real=%v model=%v", names[k], got[k], w))
		}
	}
	for k, g := range got {
		if _, ok := want[k]; !ok && (g.add != 0 || g.del != 0) {
			d = append(d, fmt.Sprintf("%s: real=%v model=absent", names[k], g))
		}
	}
	sort.Strings(d)
	return strings.Join(d, "; ")
}

// copyState ships a private copy through k+1 real Encode -> DecodeState hops.
func copyState(st *event.State, extraHops int) (*event.State, error) {
	cur := st
	for h := 0; h <= extraHops; h++ {
		enc := cur.Encode()
		if len(enc) != 1 {
			return nil, fmt.Errorf("Encode returned %d slices", len(enc))
		}
		dec, err := event.DecodeState(enc[0])
		if err != nil {
			return nil, err
		}
		cur = dec
	}
	return cur, nil
}

type replica struct {
	st      *event.State
	durable bool
	model   shadow
	dir     string
}

func newReplica(durable bool, file bool) (*replica, error) {
	r := &replica{model: shadow{}, durable: durable}
	if !durable {
		r.st = event.NewState("")
		return r, nil
	}
	if file {
		d, err := os.MkdirTemp(os.Getenv("VERIF_SCRATCH"), "crdt-")
		if err != nil {
			return nil, err
		}
		r.dir = d
		r.st = event.NewState(d)
	} else {
		r.st = event.NewState(":memory:")
	}
	return r, nil
}

func (r *replica) close() {
	r.st.Close()
	if r.dir != "" {
		os.RemoveAll(r.dir)
	}
}

type payload struct {
	st    *event.State
	model shadow
	desc  string
}

// ---------------------------------------------------------------------------------------------

func TestC04(t *testing.T) {
	rec := vk.New("C04", "seq")
	defer rec.Finish(t)
	rec.Rule("case = one seeded history over 3-5 real event.State replicas (volatile, durable in-memory, durable file-backed): local add/remove under a logical clock chosen by the generator " +
		"(ties, clocks running backwards, equal add and remove times), shipping of one-operation payloads, returned deltas and full snapshots through 0-2 extra Encode->DecodeState hops to any replica, any number of times; " +
		"after every step the touched replica's entries (hook) and Has() are compared with a shadow max-lattice; at the end all replicas are merged pairwise both ways and compared with each other; " +
		"non-trivial = >=6 merges that changed the receiver, >=1 tie and >=1 duplicate delivery; distinct = hash of the step list")
	n := vk.N(300, 20000)
	for ci := 0; ci < n; ci++ {
		if vk.Mine(ci) {
			runC04(rec, ci, "C04")
		}
	}
}

func TestC13Delta(t *testing.T) {
	rec := vk.New("C13", "delta")
	defer rec.Finish(t)
	rec.Rule("part 1: (a) exhaustive for one key and for two keys: local (add,del) in {0,2,4}^2 x incoming (add,del) in {0..5}^2 \\ (0,0) per key, volatile and durable receivers (two keys on the durable backend: every 60th combination in the quick tier): the delta returned by State.Merge, its nil-ness, the receiver afterwards and a second merge of the same payload " +
		"are compared with the independently computed difference; (b) the same comparison after every merge of the seeded multi-replica histories of C04; non-trivial = cases whose expected delta is a strict non-empty subset of the payload or empty; distinct = (backend, local times, incoming times)")
	runC13Exhaustive(rec)
	n := vk.N(150, 8000)
	for ci := 0; ci < n; ci++ {
		if vk.Mine(ci) {
			runC04(rec, ci, "C13")
		}
	}
}

func runC04(rec *vk.Rec, ci int, prop string) {
	r := vk.NewRand(vk.Seed(), "C04", ci)
	u := universe()
	names := map[string]string{}
	for _, e := range u {
		names[skey(e)] = e.nm
	}
	nr := r.Range(3, 5)
	var reps []*replica
	defer func() {
		for _, rp := range reps {
			rp.close()
		}
	}()
	for i := 0; i < nr; i++ {
		kind := r.Intn(10)
		rp, err := newReplica(kind >= 5, kind >= 8)
		if err != nil {
			rec.Inconclusive(err.Error())
			return
		}
		reps = append(reps, rp)
	}
	var steps []string
	var pool []payload
	violated := false
	fail := func(kind, desc string) {
		violated = true
		rec.Violation(ci, kind, fmt.Sprintf("step %d: %s", len(steps), desc), map[string]interface{}{"replicas": replicaKinds(reps), "steps": steps})
	}
	check := func(i int) {
		rp := reps[i]
		got := readState(rp.st)
		rec.Inc("replica_state_comparisons")
		if d := diffShadow(got, rp.model, names); d != "" {
			fail("replica-differs-from-max-lattice/"+backend(rp), fmt.Sprintf("replica %d (%s): %s", i, backend(rp), d))
			return
		}
		for _, e := range u {
			m := rp.model[skey(e)]
			want := m.add != 0 && m.add >= m.del
			if got := rp.st.Has(e.ev); got != want {
				fail("has-differs-from-times/"+backend(rp), fmt.Sprintf("replica %d (%s): Has(%s)=%v but times add=%d del=%d", i, backend(rp), e.nm, got, m.add, m.del))
				return
			}
		}
	}
	changed, ties, dups := 0, 0, 0
	delivered := map[string]bool{}
	nsteps := 60
	for s := 0; s < nsteps && !violated; s++ {
		x := r.Intn(100)
		switch {
		case x < 35: // local operation
			i := r.Intn(nr)
			e := u[r.Intn(len(u))]
			tm := int64(r.Range(1, 12))
			add := r.Chance(55)
			setClock(tm)
			cur := reps[i].model[skey(e)]
			if add {
				if tm == cur.del || tm == cur.add {
					ties++
				}
				reps[i].st.Add(e.ev)
				if tm > cur.add {
					cur.add = tm
				}
			} else {
				if tm == cur.add {
					ties++
				}
				reps[i].st.Del(e.ev)
				if tm > cur.del {
					cur.del = tm
				}
			}
			reps[i].model[skey(e)] = cur
			steps = append(steps, fmt.Sprintf("r%d %s %s @%d", i, map[bool]string{true: "add", false: "del"}[add], e.nm, tm))
			check(i)
		case x < 50: // make a one-operation payload (like Swarm.Notify does)
			e := u[r.Intn(len(u))]
			tm := int64(r.Range(1, 12))
			add := r.Chance(55)
			op := event.NewState("")
			setClock(tm)
			m := shadow{}
			if add {
				op.Add(e.ev)
				m[skey(e)] = tpair{add: tm}
			} else {
				op.Del(e.ev)
				m[skey(e)] = tpair{del: tm}
			}
			pool = append(pool, payload{op, m, fmt.Sprintf("op(%s %s@%d)", map[bool]string{true: "add", false: "del"}[add], e.nm, tm)})
			steps = append(steps, "make "+pool[len(pool)-1].desc)
		case x < 62: // snapshot of a replica
			i := r.Intn(nr)
			cp, err := copyState(reps[i].st, r.Intn(3))
			if err != nil {
				fail("codec-error", err.Error())
				break
			}
			pool = append(pool, payload{cp, reps[i].model.clone(), fmt.Sprintf("snapshot(r%d@step%d)", i, len(steps))})
			steps = append(steps, "make "+pool[len(pool)-1].desc)
		default: // deliver a payload of the pool to a replica (a private copy, so it can be delivered again)
			if len(pool) == 0 {
				continue
			}
			pi := r.Intn(len(pool))
			p := pool[pi]
			i := r.Intn(nr)
			hops := r.Intn(3)
			cp, err := copyState(p.st, hops)
			if err != nil {
				fail("codec-error", err.Error())
				break
			}
			// the copy must carry exactly the payload's content (Encode/Decode is part of C04)
			if d := diffShadow(readState(cp), p.model, names); d != "" {
				fail("codec-changed-payload", fmt.Sprintf("%s after %d hops: %s", p.desc, hops+1, d))
				break
			}
			dk := fmt.Sprintf("%d->%d", pi, i)
			if delivered[dk] {
				dups++
			}
			delivered[dk] = true
			wantDelta := reps[i].model.mergeModel(p.model)
			got := reps[i].st.Merge(cp)
			steps = append(steps, fmt.Sprintf("deliver %s -> r%d (%d hops)", p.desc, i, hops+1))
			if len(wantDelta) > 0 {
				changed++
			}
			check(i)
			if violated {
				break
			}
			// C13 part 1: the returned delta
			rec.Inc("delta_comparisons")
			if got == nil {
				if len(wantDelta) != 0 {
					fail("delta-nil-but-state-changed/"+backend(reps[i]), fmt.Sprintf("Merge returned nil but the receiver changed: %v", fmtShadow(wantDelta, names)))
				}
			} else {
				gs, ok := got.(*event.State)
				if !ok || gs == nil {
					fail("delta-type", fmt.Sprintf("Merge returned %T", got))
					break
				}
				gd := readState(gs)
				if len(wantDelta) == 0 {
					fail("delta-not-nil-though-nothing-changed/"+backend(reps[i]), fmt.Sprintf("Merge returned a non-nil delta %v although nothing changed", fmtShadow(gd, names)))
				} else if d := diffShadow(gd, wantDelta, names); d != "" {
					fail("delta-differs/"+backend(reps[i]), fmt.Sprintf("returned delta vs independent difference: %s", d))
				} else if r.Chance(50) {
					// relay the delta onward later
					pool = append(pool, payload{gs, wantDelta.clone(), fmt.Sprintf("delta(%s->r%d)", p.desc, i)})
				}
			}
		}
	}
	// final: pairwise both ways with full snapshots, until no replica changes
	if !violated {
		for round := 0; round < 3; round++ {
			for i := 0; i < nr; i++ {
				for j := 0; j < nr; j++ {
					if i == j {
						continue
					}
					cp, err := copyState(reps[i].st, 0)
					if err != nil {
						fail("codec-error", err.Error())
						return
					}
					reps[j].model.mergeModel(reps[i].model)
					reps[j].st.Merge(cp)
				}
			}
		}
		ref := readState(reps[0].st)
		for i := 0; i < nr && !violated; i++ {
			check(i)
			if d := diffShadow(readState(reps[i].st), ref, names); d != "" && !violated {
				fail("replicas-diverge", fmt.Sprintf("after full pairwise exchange replica %d differs from replica 0: %s", i, d))
			}
		}
		rec.Inc("final_convergence_checks")
	}
	h := []interface{}{replicaKinds(reps)}
	for _, s := range steps {
		h = append(h, s)
	}
	if prop == "C13" {
		rec.Case(vk.Hash(h...), changed >= 5)
	} else {
		rec.Case(vk.Hash(h...), changed >= 6 && ties >= 1 && dups >= 1)
	}
	if rec.WantSample() {
		k := len(steps)
		if k > 12 {
			k = 12
		}
		rec.Sample(map[string]interface{}{"case": ci, "replicas": replicaKinds(reps), "first_steps": steps[:k], "steps": len(steps), "merges_that_changed_receiver": changed, "ties": ties, "duplicate_deliveries": dups})
	}
}

func backend(r *replica) string {
	if !r.durable {
		return "volatile"
	}
	if r.dir != "" {
		return "durable-file"
	}
	return "durable-memory"
}

func replicaKinds(reps []*replica) string {
	var k []string
	for _, r := range reps {
		k = append(k, backend(r))
	}
	return strings.Join(k, ",")
}

func fmtShadow(s shadow, names map[string]string) string {
	var o []string
	for k, v := range s {
		o = append(o, fmt.Sprintf("%s(add=%d,del=%d)", names[k], v.add, v.del))
	}
	sort.Strings(o)
	return strings.Join(o, " ")
}

// ---- C13 part 1, exhaustive -----------------------------------------------------------------

func runC13Exhaustive(rec *vk.Rec) {
	u := universe()
	names := map[string]string{}
	for _, e := range u {
		names[skey(e)] = e.nm
	}
	locals := []int64{0, 2, 4}
	ins := []int64{0, 1, 2, 3, 4, 5}
	type kcase struct{ la, ld, ia, id int64 }
	var one []kcase
	for _, la := range locals {
		for _, ld := range locals {
			for _, ia := range ins {
				for _, id := range ins {
					one = append(one, kcase{la, ld, ia, id})
				}
			}
		}
	}
	caseNo := 0
	run := func(durable bool, ks []kcase, evs []evSpec) {
		caseNo++
		if !vk.Mine(caseNo) {
			return
		}
		var local *event.State
		if durable {
			local = event.NewState(":memory:")
		} else {
			local = event.NewState("")
		}
		defer local.Close()
		in := event.NewState("")
		lm, im := shadow{}, shadow{}
		anyIn := false
		for i, k := range ks {
			e := evs[i]
			if k.la > 0 {
				setClock(k.la)
				local.Add(e.ev)
			}
			if k.ld > 0 {
				setClock(k.ld)
				local.Del(e.ev)
			}
			if k.la > 0 || k.ld > 0 {
				lm[skey(e)] = tpair{k.la, k.ld}
			}
			if k.ia > 0 {
				setClock(k.ia)
				in.Add(e.ev)
			}
			if k.id > 0 {
				setClock(k.id)
				in.Del(e.ev)
			}
			if k.ia > 0 || k.id > 0 {
				im[skey(e)] = tpair{k.ia, k.id}
				anyIn = true
			}
		}
		if !anyIn {
			return
		}
		be := map[bool]string{true: "durable-memory", false: "volatile"}[durable]
		desc := fmt.Sprintf("%s local=%v incoming=%v", be, ks, ks)
		fail := func(kind, d string) {
			rec.Violation(caseNo, kind+"/"+be, fmt.Sprintf("local %s, incoming %s: %s", fmtShadow(lm, names), fmtShadow(im, names), d), map[string]interface{}{"backend": be, "cases": fmt.Sprintf("%+v", ks)})
		}
		second, err := copyState(in, 0)
		if err != nil {
			fail("codec-error", err.Error())
			return
		}
		want := lm.mergeModel(im)
		got := local.Merge(in)
		strict := len(want) == 0
		for k, w := range want {
			if w != im[k] {
				strict = true
			}
		}
		if len(want) != len(im) {
			strict = true
		}
		rec.Case(vk.Hash(desc, durable, fmt.Sprint(ks)), strict)
		rec.Inc("exhaustive_delta_comparisons")
		if d := diffShadow(readState(local), lm, names); d != "" {
			fail("replica-differs-from-max-lattice", d)
			return
		}
		if got == nil {
			if len(want) != 0 {
				fail("delta-nil-but-state-changed", fmtShadow(want, names))
			}
		} else {
			gs, _ := got.(*event.State)
			if gs == nil {
				fail("delta-type", fmt.Sprintf("%T", got))
				return
			}
			gd := readState(gs)
			if len(want) == 0 {
				fail("delta-not-nil-though-nothing-changed", fmtShadow(gd, names))
			} else if d := diffShadow(gd, want, names); d != "" {
				fail("delta-differs", d)
			}
		}
		// re-gossip stops: the same payload again changes nothing and returns nil
		if again := local.Merge(second); again != nil {
			fail("second-merge-not-nil", fmt.Sprintf("merging the same payload a second time returned %v", fmtShadow(readState(again.(*event.State)), names)))
		}
		if d := diffShadow(readState(local), lm, names); d != "" {
			fail("second-merge-changed-state", d)
		}
	}
	for _, durable := range []bool{false, true} {
		for _, k := range one {
			run(durable, []kcase{k}, []evSpec{u[0]})
			run(durable, []kcase{k}, []evSpec{u[3]})
		}
	}
	// two keys: exhaustive on the volatile backend; on the durable one every 60th combination (quick) or all (thorough)
	n := 0
	for _, k1 := range one {
		for _, k2 := range one {
			n++
			run(false, []kcase{k1, k2}, []evSpec{u[0], u[4]})
			if vk.Tier() == "thorough" || n%60 == 0 {
				run(true, []kcase{k1, k2}, []evSpec{u[1], u[3]})
			}
		}
	}
}

// ---- concurrent variant under -race ---------------------------------------------------------

func TestC04Conc(t *testing.T) {
	rec := vk.New("C04", "conc")
	defer rec.Finish(t)
	rec.Rule("case = 3 replicas (volatile + durable) used concurrently by 6-10 goroutines (local add/remove, merges of private copies of snapshots and one-operation payloads, Has/Encode readers) under -race with an atomic logical clock; " +
		"after joining, replicas exchange full snapshots pairwise and must hold identical entries, every Has must agree with the times; non-trivial = every case; distinct = hash of the final state")
	var tick int64 = 100
	crdt.Now = func() int64 { return atomic.AddInt64(&tick, 1) }
	defer func() { crdt.Now = func() int64 { return atomic.LoadInt64(&clock) } }()
	n := vk.N(40, 1500)
	u := universe()
	names := map[string]string{}
	for _, e := range u {
		names[skey(e)] = e.nm
	}
	for ci := 0; ci < n; ci++ {
		if !vk.Mine(ci) {
			continue
		}
		r := vk.NewRand(vk.Seed(), "C04conc", ci)
		reps := []*event.State{event.NewState(""), event.NewState(":memory:"), event.NewState(":memory:")}
		if ci%2 == 0 {
			reps[2] = event.NewState("")
		}
		var wg sync.WaitGroup
		ng := r.Range(6, 10)
		var errMu sync.Mutex
		var cerr error
		for g := 0; g < ng; g++ {
			gr := vk.NewRand(vk.Seed(), fmt.Sprintf("C04conc-g%d", g), ci)
			wg.Add(1)
			go func(gr *vk.Rand) {
				defer wg.Done()
				for i := 0; i < 40; i++ {
					rp := reps[gr.Intn(3)]
					e := u[gr.Intn(len(u))]
					switch gr.Intn(6) {
					case 0, 1:
						rp.Add(e.ev)
					case 2:
						rp.Del(e.ev)
					case 3:
						rp.Has(e.ev)
					case 4:
						cp, err := copyState(reps[gr.Intn(3)], 0)
						if err != nil {
							errMu.Lock()
							cerr = err
							errMu.Unlock()
							return
						}
						rp.Merge(cp)
					case 5:
						op := event.NewState("")
						if gr.Bool() {
							op.Add(e.ev)
						} else {
							op.Del(e.ev)
						}
						rp.Merge(op)
					}
				}
			}(gr)
		}
		wg.Wait()
		if cerr != nil {
			rec.Violation(ci, "codec-error-concurrent", cerr.Error(), nil)
			continue
		}
		for round := 0; round < 2; round++ {
			for i := range reps {
				for j := range reps {
					if i != j {
						cp, _ := copyState(reps[i], 0)
						reps[j].Merge(cp)
					}
				}
			}
		}
		ref := readState(reps[0])
		for i := range reps {
			got := readState(reps[i])
			if d := diffShadow(got, ref, names); d != "" {
				rec.Violation(ci, "replicas-diverge-concurrent", fmt.Sprintf("replica %d vs 0 after full exchange: %s", i, d), nil)
			}
			for _, e := range u {
				m := got[skey(e)]
				if want := m.add != 0 && m.add >= m.del; reps[i].Has(e.ev) != want {
					rec.Violation(ci, "has-differs-from-times-concurrent", fmt.Sprintf("replica %d Has(%s) != (add=%d,del=%d)", i, e.nm, m.add, m.del), nil)
				}
			}
		}
		rec.Inc("concurrent_histories")
		rec.Case(vk.Hash(fmtShadow(ref, names), ci), true)
		if rec.WantSample() {
			rec.Sample(map[string]interface{}{"case": ci, "goroutines": ng, "final_state": fmtShadow(ref, names)})
		}
		for _, rp := range reps {
			rp.Close()
		}
	}
}

var _ mesh.GossipData = (*event.State)(nil)

// ---- C13 part 1 under concurrency: deltas of concurrent merges must be explainable by some order ----

func TestC13Conc(t *testing.T) {
	rec := vk.New("C13", "deltaconc")
	defer rec.Finish(t)
	rec.Rule("case = one real replica (durable or volatile) receiving 2-4 payloads at the same instant from different goroutines (identical copies of one payload, and older/newer variants, 50-300 keys the replica has or has not seen); " +
		"necessary conditions of linearizability checked after joining, before any healing exchange: the replica's times are the point-wise maximum of its initial state and all payloads; per key and kind the times reported in the returned deltas are distinct and newer than the initial state; " +
		"the maximal new time of every key is reported by exactly one delta; non-trivial = every case (all have overlapping payloads); distinct = (backend, payload plan, case index)")
	n := vk.N(150, 6000)
	for ci := 0; ci < n; ci++ {
		if !vk.Mine(ci) {
			continue
		}
		r := vk.NewRand(vk.Seed(), "C13conc", ci)
		durable := ci%3 != 0
		var rep *event.State
		if durable {
			rep = event.NewState(":memory:")
		} else {
			rep = event.NewState("")
		}
		nk := r.Range(50, 300)
		keys := make([]evSpec, nk)
		for i := range keys {
			s := &event.Subscription{Peer: 9, Conn: security.ID(1000 + i), Ssid: message.Ssid{7, uint32(i)}, Channel: []byte("c/")}
			keys[i] = evSpec{event.VerifSubs, s, s.Key(), fmt.Sprintf("k%d", i)}
		}
		init := shadow{}
		for _, e := range keys {
			if r.Chance(30) {
				setClock(int64(r.Range(1, 5)))
				rep.Add(e.ev)
				init[skey(e)] = tpair{add: atomic.LoadInt64(&clock)}
			}
		}
		ng := r.Range(2, 4)
		type pl struct {
			st *event.State
			m  shadow
		}
		var pls []pl
		base := shadow{}
		for _, e := range keys {
			base[skey(e)] = tpair{add: int64(r.Range(3, 9))}
		}
		mk := func(m shadow) pl {
			st := event.NewState("")
			for _, e := range keys {
				if v, ok := m[skey(e)]; ok {
					if v.add > 0 {
						setClock(v.add)
						st.Add(e.ev)
					}
					if v.del > 0 {
						setClock(v.del)
						st.Del(e.ev)
					}
				}
			}
			return pl{st, m}
		}
		for g := 0; g < ng; g++ {
			m := shadow{}
			for k, v := range base {
				switch {
				case g == 0 || r.Chance(60):
					m[k] = v // identical copy: the same new entry from two neighbours at once
				case r.Chance(50):
					m[k] = tpair{add: v.add + int64(r.Range(1, 3))} // newer
				default:
					m[k] = tpair{add: v.add - int64(r.Range(1, 2)), del: int64(r.Range(0, 9))} // older add, some remove
				}
			}
			pls = append(pls, mk(m))
		}
		deltas := make([]shadow, ng)
		start := make(chan struct{})
		var wg sync.WaitGroup
		for g := 0; g < ng; g++ {
			wg.Add(1)
			go func(g int) {
				defer wg.Done()
				<-start
				d := rep.Merge(pls[g].st)
				if d != nil {
					deltas[g] = readState(d.(*event.State))
				} else {
					deltas[g] = shadow{}
				}
			}(g)
		}
		close(start)
		wg.Wait()
		want := init.clone()
		for _, p := range pls {
			want.mergeModel(p.m)
		}
		names := map[string]string{}
		for _, e := range keys {
			names[skey(e)] = e.nm
		}
		be := map[bool]string{true: "durable-memory", false: "volatile"}[durable]
		got := readState(rep)
		rec.Inc("concurrent_merge_groups")
		if d := diffShadow(got, want, names); d != "" {
			rec.Violation(ci, "concurrent-merge-lost-update/"+be, fmt.Sprintf("%d payloads merged at once into a %s replica: state differs from the point-wise maximum: %.300s", ng, be, d), nil)
		} else {
			for k := range want {
				for kind := 0; kind < 2; kind++ {
					pick := func(t tpair) int64 {
						if kind == 0 {
							return t.add
						}
						return t.del
					}
					seen := map[int64]int{}
					for g := range deltas {
						if v := pick(deltas[g][k]); v != 0 {
							seen[v]++
							if v <= pick(init[k]) {
								rec.Violation(ci, "concurrent-merge-delta-reports-old-time/"+be, fmt.Sprintf("%s: delta reports time %d, initial %d", names[k], v, pick(init[k])), nil)
							}
						}
					}
					for v, c := range seen {
						if c > 1 {
							rec.Violation(ci, "concurrent-merge-same-update-in-two-deltas/"+be, fmt.Sprintf("%s: %d payloads merged at once into a %s replica; time %d of %s is reported as new by %d deltas", names[k], ng, be, v, names[k], c), nil)
						}
					}
					if fin := pick(want[k]); fin > pick(init[k]) && seen[fin] != 1 {
						rec.Violation(ci, "concurrent-merge-new-update-in-no-delta/"+be, fmt.Sprintf("%s: final time %d (initial %d) reported by %d deltas", names[k], fin, pick(init[k]), seen[fin]), nil)
					}
				}
			}
		}
		rec.Case(vk.Hash(be, ng, nk, ci), true)
		if rec.WantSample() {
			rec.Sample(map[string]interface{}{"case": ci, "backend": be, "payloads_at_once": ng, "keys": nk})
		}
		rep.Close()
	}
}
