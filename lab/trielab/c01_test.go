//go:build verif

// C01 — published messages reach exactly the matching subscribers (DESIGN §5 C01).
// Reference = a Go map of (contract, filter, subscriber) and a matcher written from the statement;
// the real trie is driven through security.ParseChannel + message.NewSsid so murmur.go is in the loop.
package trielab

import (
	"fmt"
	"sort"
	"strings"
	"sync"
	"sync/atomic"
	"testing"
	"time"

	"github.com/anishathalye/porcupine"
	"github.com/emitter-io/emitter/internal/message"
	"github.com/emitter-io/emitter/internal/security"
	"github.com/emitter-io/emitter/internal/security/hash"
	"github.com/emitter-io/emitter/verif/lab/vk"
)

type fakeSub struct{ id string }

func (f *fakeSub) ID() string                          { return f.id }
func (f *fakeSub) Type() message.SubscriberType        { return message.SubscriberDirect }
func (f *fakeSub) Send(*message.Message) error         { return nil }

var subPool []*fakeSub

func init() {
	seen := map[uint32]string{}
	for i := 0; i < 12; i++ {
		s := &fakeSub{id: fmt.Sprintf("sub-%02d", i)}
		h := hash.OfString(s.id)
		if o, ok := seen[h]; ok {
			panic("subscriber id pool collides under murmur: " + o + " " + s.id)
		}
		seen[h] = s.id
		subPool = append(subPool, s)
	}
	lv := map[uint32]string{}
	for _, l := range []string{"a", "b", "c", "x", "y", "+", "#", "$share", "g1", "g2"} {
		h := hash.OfString(l)
		if o, ok := lv[h]; ok {
			panic("level alphabet collides under murmur: " + o + " " + l)
		}
		lv[h] = l
	}
}

var contracts = []uint32{0x1111aaaa, 0x2222bbbb}

// filter: optional share group, levels (may contain "+", and trailing "#" in mqtt mode)
type filt struct {
	contract int
	group    string // "" or g1/g2
	levels   []string
}

func (f filt) String() string {
	s := ""
	if f.group != "" {
		s = "$share/" + f.group + "/"
	}
	return fmt.Sprintf("%d:%s%s/", f.contract, s, strings.Join(f.levels, "/"))
}

func toSsid(contract int, levels []string) message.Ssid {
	ch := security.ParseChannel([]byte("k/" + strings.Join(levels, "/") + "/"))
	if ch.ChannelType == security.ChannelInvalid {
		panic("generator produced an invalid channel: " + strings.Join(levels, "/"))
	}
	return message.NewSsid(contracts[contract], ch.Query)
}

func (f filt) ssid() message.Ssid {
	lv := f.levels
	if f.group != "" {
		lv = append([]string{"$share", f.group}, f.levels...)
	}
	return toSsid(f.contract, lv)
}

// matches is the statement: emitter mode — the filter is a level-wise prefix of the channel and
// '+' matches any one level; mqtt mode — same depth, '+' matches one level, a trailing '#' matches
// one or more further levels.
func matches(mqtt bool, f []string, ch []string) bool {
	if !mqtt {
		if len(f) > len(ch) {
			return false
		}
		for i, l := range f {
			if l != "+" && l != ch[i] {
				return false
			}
		}
		return true
	}
	n := len(f)
	if n > 0 && f[n-1] == "#" {
		pre := f[:n-1]
		if len(ch) < len(pre)+1 {
			return false
		}
		for i, l := range pre {
			if l != "+" && l != ch[i] {
				return false
			}
		}
		return true
	}
	if len(f) != len(ch) {
		return false
	}
	for i, l := range f {
		if l != "+" && l != ch[i] {
			return false
		}
	}
	return true
}

type model struct {
	mqtt  bool
	pairs map[string]map[int]bool // filter string -> subscriber index set
	filts map[string]filt
}

func newModel(mqtt bool) *model {
	return &model{mqtt: mqtt, pairs: map[string]map[int]bool{}, filts: map[string]filt{}}
}
func (m *model) sub(f filt, s int) {
	k := f.String()
	if m.pairs[k] == nil {
		m.pairs[k] = map[int]bool{}
		m.filts[k] = f
	}
	m.pairs[k][s] = true
}
func (m *model) unsub(f filt, s int) {
	k := f.String()
	if m.pairs[k] != nil {
		delete(m.pairs[k], s)
		if len(m.pairs[k]) == 0 {
			delete(m.pairs, k)
			delete(m.filts, k)
		}
	}
}
func (m *model) count() int {
	n := 0
	for _, s := range m.pairs {
		n += len(s)
	}
	return n
}

// expect returns the direct set D and the member sets per share group for a publish to channel.
func (m *model) expect(contract int, ch []string, pass func(int) bool) (D map[int]bool, groups map[string]map[int]bool) {
	D, groups = map[int]bool{}, map[string]map[int]bool{}
	for k, subs := range m.pairs {
		f := m.filts[k]
		if f.contract != contract || !matches(m.mqtt, f.levels, ch) {
			continue
		}
		for s := range subs {
			if pass != nil && !pass(s) {
				continue
			}
			if f.group == "" {
				D[s] = true
			} else {
				if groups[f.group] == nil {
					groups[f.group] = map[int]bool{}
				}
				groups[f.group][s] = true
			}
		}
	}
	return
}

// checkResult: D ⊆ R, R∖D ⊆ ⋃M_g, every non-empty group has a member in R, and the extra elements
// of R can be assigned to distinct groups that contain them (each group picks exactly one member).
func checkResult(R map[int]bool, D map[int]bool, groups map[string]map[int]bool) string {
	for s := range D {
		if !R[s] {
			return fmt.Sprintf("matching subscriber %s missing from result", subPool[s].id)
		}
	}
	var extra []int
	for s := range R {
		if !D[s] {
			extra = append(extra, s)
		}
	}
	sort.Ints(extra)
	gnames := make([]string, 0, len(groups))
	for g, mem := range groups {
		gnames = append(gnames, g)
		any := false
		for s := range mem {
			if R[s] {
				any = true
			}
		}
		if !any {
			return fmt.Sprintf("share group %s has matching members but none received the message", g)
		}
	}
	sort.Strings(gnames)
	for _, e := range extra {
		in := false
		for _, mem := range groups {
			if mem[e] {
				in = true
			}
		}
		if !in {
			return fmt.Sprintf("subscriber %s received the message without a matching subscription", subPool[e].id)
		}
	}
	// bipartite matching extras -> groups
	assigned := map[string]int{}
	var try func(e int, seen map[string]bool) bool
	try = func(e int, seen map[string]bool) bool {
		for _, g := range gnames {
			if !groups[g][e] || seen[g] {
				continue
			}
			seen[g] = true
			if o, ok := assigned[g]; !ok || try(o, seen) {
				assigned[g] = e
				return true
			}
		}
		return false
	}
	for _, e := range extra {
		if !try(e, map[string]bool{}) {
			return fmt.Sprintf("more than one member of a share group received the message (extras %v, groups %v)", extra, groups)
		}
	}
	return ""
}

// ---------------------------------------------------------------------------------------------
// generators

var litLevels = []string{"a", "b", "c", "x", "y"}

func genLevels(r *vk.Rand, mqtt bool, wild bool) []string {
	d := r.Range(1, 4)
	lv := make([]string, d)
	for i := range lv {
		if wild && r.Chance(22) {
			lv[i] = "+"
		} else {
			lv[i] = litLevels[r.Intn(len(litLevels))]
		}
	}
	if wild && mqtt && r.Chance(25) {
		lv[len(lv)-1] = "#"
	}
	return lv
}

// genFilter is biased towards the combinations named in the property: duplicates, overlaps,
// permuted and repeated levels, share members that also subscribe directly.
func genFilter(r *vk.Rand, mqtt bool, prev []filt, share bool) filt {
	f := filt{contract: 0}
	if r.Chance(20) {
		f.contract = 1
	}
	switch {
	case len(prev) > 0 && r.Chance(45):
		p := prev[r.Intn(len(prev))]
		f.contract = p.contract
		f.levels = append([]string{}, p.levels...)
		switch r.Intn(6) {
		case 0: // duplicate
		case 1: // permuted
			perm := r.Perm(len(f.levels))
			q := make([]string, len(f.levels))
			for i, j := range perm {
				q[i] = f.levels[j]
			}
			if !(mqtt && hasInnerHash(q)) {
				f.levels = q
			}
		case 2: // repeated level
			f.levels = append(f.levels[:1:1], f.levels...)
			if len(f.levels) > 4 {
				f.levels = f.levels[:4]
			}
			if mqtt && hasInnerHash(f.levels) {
				f.levels = append([]string{}, p.levels...)
			}
		case 3: // parent
			if len(f.levels) > 1 {
				f.levels = f.levels[:len(f.levels)-1]
			}
		case 4: // child
			if len(f.levels) < 4 && !(mqtt && f.levels[len(f.levels)-1] == "#") {
				f.levels = append(f.levels, litLevels[r.Intn(len(litLevels))])
			}
		case 5: // one level replaced by +
			i := r.Intn(len(f.levels))
			if f.levels[i] != "#" {
				f.levels[i] = "+"
			}
		}
	default:
		f.levels = genLevels(r, mqtt, true)
	}
	if share && r.Chance(25) {
		f.group = r.Pick("g1", "g2")
	}
	return f
}

func hasInnerHash(l []string) bool {
	for i, s := range l {
		if s == "#" && i != len(l)-1 {
			return true
		}
	}
	return false
}

func genChannel(r *vk.Rand, prev []filt) []string {
	if len(prev) > 0 && r.Chance(60) {
		p := prev[r.Intn(len(prev))]
		ch := make([]string, 0, 5)
		for _, l := range p.levels {
			if l == "+" || l == "#" {
				l = litLevels[r.Intn(len(litLevels))]
			}
			ch = append(ch, l)
		}
		for len(ch) < 5 && r.Chance(40) {
			ch = append(ch, litLevels[r.Intn(len(litLevels))])
		}
		if len(ch) > 1 && r.Chance(15) {
			ch = ch[:len(ch)-1]
		}
		return ch
	}
	d := r.Range(1, 5)
	ch := make([]string, d)
	for i := range ch {
		ch[i] = litLevels[r.Intn(len(litLevels))]
	}
	return ch
}

func newTrie(mqtt bool) *message.Trie {
	if mqtt {
		return message.NewTrieMQTT()
	}
	return message.NewTrie()
}

func dumpSet(t *message.Trie) (int, map[string]bool) {
	nodes, pairs := t.VerifDump()
	out := map[string]bool{}
	for _, p := range pairs {
		out[fmt.Sprintf("%v|%s", []uint32(p.Ssid), p.ID)] = true
	}
	return nodes, out
}

func modelSet(m *model) map[string]bool {
	out := map[string]bool{}
	for k, subs := range m.pairs {
		f := m.filts[k]
		for s := range subs {
			out[fmt.Sprintf("%v|%s", []uint32(f.ssid()), subPool[s].id)] = true
		}
	}
	return out
}

func diffSets(a, b map[string]bool) string {
	var d []string
	for k := range a {
		if !b[k] {
			d = append(d, "only-in-trie "+k)
		}
	}
	for k := range b {
		if !a[k] {
			d = append(d, "only-in-model "+k)
		}
	}
	sort.Strings(d)
	if len(d) > 6 {
		d = d[:6]
	}
	return strings.Join(d, "; ")
}

// ---------------------------------------------------------------------------------------------

func TestC01Seq(t *testing.T) {
	rec := vk.New("C01", "seq")
	defer rec.Finish(t)
	rec.Rule("case = seeded history of 200 subscribe/unsubscribe/lookup operations on one real Trie (both matchers), " +
		"compared op-by-op with a reference set model; non-trivial = the history contained >=1 lookup with a non-empty expected set, " +
		">=1 overlapping or duplicate filter and ended with the full teardown check; distinct = hash of the operation list")
	ncases := vk.N(900, 45000)
	for ci := 0; ci < ncases; ci++ {
		if !vk.Mine(ci) {
			continue
		}
		runSeqCase(rec, ci)
	}
}

type opRec struct {
	Op     string `json:"op"`
	Sub    string `json:"sub,omitempty"`
	Filter string `json:"filter,omitempty"`
	Chan   string `json:"chan,omitempty"`
	Got    string `json:"got,omitempty"`
}

func runSeqCase(rec *vk.Rec, ci int) {
	r := vk.NewRand(vk.Seed(), "C01seq", ci)
	mqtt := ci%2 == 1
	trie := newTrie(mqtt)
	m := newModel(mqtt)
	var prev []filt
	var ops []opRec
	nonEmptyLookups, overlaps := 0, 0
	fail := func(step int, matcher, desc string) {
		rec.Violation(ci, matcher, fmt.Sprintf("mqtt=%v step %d: %s", mqtt, step, desc), map[string]interface{}{"mqtt": mqtt, "ops": ops})
	}
	held := func() (filt, int, bool) {
		if len(m.pairs) == 0 {
			return filt{}, 0, false
		}
		keys := make([]string, 0, len(m.pairs))
		for k := range m.pairs {
			keys = append(keys, k)
		}
		sort.Strings(keys)
		k := keys[r.Intn(len(keys))]
		ss := make([]int, 0)
		for s := range m.pairs[k] {
			ss = append(ss, s)
		}
		sort.Ints(ss)
		return m.filts[k], ss[r.Intn(len(ss))], true
	}
	nops := 200
	bad := false
	// focused cases (every third): a universe of 3-5 filters that nest in each other (F, F/x, F/x/y, a sibling, a '+' variant)
	// and 2-3 subscribers, so that long runs of operations hit the same few nodes again and again - re-subscribing right after a
	// branch was pruned, removing in every order, the same filter twice in a row
	var universe []filt
	npool := len(subPool)
	if ci%3 == 2 {
		base := []string{litLevels[r.Intn(len(litLevels))]}
		l2, l3 := litLevels[r.Intn(len(litLevels))], litLevels[r.Intn(len(litLevels))]
		universe = []filt{{levels: base}, {levels: append(append([]string{}, base...), l2)}, {levels: append(append([]string{}, base...), l2, l3)}}
		if r.Bool() {
			universe = append(universe, filt{levels: append(append([]string{}, base...), litLevels[r.Intn(len(litLevels))])})
		}
		if r.Bool() {
			universe = append(universe, filt{levels: append(append([]string{}, base...), "+")})
		}
		npool = r.Range(2, 3)
		rec.Inc("focused_cases")
	}
	pickFilter := func() filt {
		if universe != nil {
			return universe[r.Intn(len(universe))]
		}
		return genFilter(r, mqtt, prev, true)
	}
	for step := 0; step < nops && !bad; step++ {
		switch x := r.Intn(100); {
		case x < 40: // subscribe
			f := pickFilter()
			s := r.Intn(npool)
			if len(prev) > 0 && r.Chance(30) { // same filter, other subscriber / same subscriber
				f = prev[r.Intn(len(prev))]
			}
			if m.pairs[f.String()] != nil {
				overlaps++
			}
			prev = append(prev, f)
			ops = append(ops, opRec{Op: "sub", Sub: subPool[s].id, Filter: f.String()})
			trie.Subscribe(f.ssid(), subPool[s])
			m.sub(f, s)
			rec.Inc("subscribes")
		case x < 65: // unsubscribe (mostly of something held)
			var f filt
			var s int
			if h, hs, ok := held(); ok && r.Chance(80) {
				f, s = h, hs
			} else {
				f = pickFilter()
				s = r.Intn(npool)
			}
			ops = append(ops, opRec{Op: "unsub", Sub: subPool[s].id, Filter: f.String()})
			trie.Unsubscribe(f.ssid(), subPool[s])
			m.unsub(f, s)
			rec.Inc("unsubscribes")
		default: // lookup
			c := r.Intn(100) < 85
			contract := 0
			if !c {
				contract = 1
			}
			ch := genChannel(r, prev)
			var pass func(int) bool
			var cb func(message.Subscriber) bool
			if r.Chance(20) {
				ex := r.Intn(len(subPool))
				pass = func(s int) bool { return s != ex }
				cb = func(s message.Subscriber) bool { return s.ID() != subPool[ex].id }
			}
			res := trie.Lookup(toSsid(contract, ch), cb)
			R := map[int]bool{}
			var got []string
			for _, s := range res {
				for i, p := range subPool {
					if p.id == s.ID() {
						R[i] = true
					}
				}
				got = append(got, s.ID())
			}
			sort.Strings(got)
			ops = append(ops, opRec{Op: "lookup", Chan: fmt.Sprintf("%d:%s/", contract, strings.Join(ch, "/")), Got: strings.Join(got, ",")})
			D, G := m.expect(contract, ch, pass)
			rec.Inc("lookups")
			if len(D) > 0 || len(G) > 0 {
				nonEmptyLookups++
				rec.Inc("lookups_nonempty")
			}
			if len(G) > 0 {
				rec.Inc("lookups_with_share_group")
			}
			if len(R) != len(res) {
				fail(step, "lookup-duplicate", "lookup result contains a subscriber twice")
				bad = true
			}
			if why := checkResult(R, D, G); why != "" {
				fail(step, "lookup-mismatch", why)
				bad = true
			}
		}
		if c := trie.Count(); c != m.count() {
			fail(step, "count-mismatch", fmt.Sprintf("Trie.Count()=%d, distinct (filter,subscriber) pairs=%d", c, m.count()))
			bad = true
		}
		if step%25 == 24 {
			_, ds := dumpSet(trie)
			rec.Inc("dump_comparisons")
			if d := diffSets(ds, modelSet(m)); d != "" {
				fail(step, "dump-mismatch", d)
				bad = true
			}
		}
		if len(m.pairs) == 0 {
			if nodes, ds := dumpSet(trie); nodes != 1 || len(ds) != 0 {
				fail(step, "not-empty-after-removal", fmt.Sprintf("all subscriptions removed but trie has %d nodes, %d pairs", nodes, len(ds)))
				bad = true
			}
			rec.Inc("empty_index_checks")
		}
	}
	// teardown in seeded order
	if !bad {
		type pr struct {
			f filt
			s int
		}
		var all []pr
		keys := make([]string, 0)
		for k := range m.pairs {
			keys = append(keys, k)
		}
		sort.Strings(keys)
		for _, k := range keys {
			ss := []int{}
			for s := range m.pairs[k] {
				ss = append(ss, s)
			}
			sort.Ints(ss)
			for _, s := range ss {
				all = append(all, pr{m.filts[k], s})
			}
		}
		for _, i := range r.Perm(len(all)) {
			trie.Unsubscribe(all[i].f.ssid(), subPool[all[i].s])
			m.unsub(all[i].f, all[i].s)
			ops = append(ops, opRec{Op: "unsub", Sub: subPool[all[i].s].id, Filter: all[i].f.String()})
		}
		nodes, ds := dumpSet(trie)
		rec.Inc("teardowns")
		rec.Max("max_teardown_pairs", int64(len(all)))
		if nodes != 1 || len(ds) != 0 || trie.Count() != 0 {
			fail(nops, "not-empty-after-removal", fmt.Sprintf("every subscription removed but trie has %d nodes, %d pairs, Count()=%d", nodes, len(ds), trie.Count()))
		}
	}
	h := make([]interface{}, 0, len(ops)+1)
	h = append(h, mqtt)
	for _, o := range ops {
		h = append(h, o.Op, o.Sub, o.Filter, o.Chan)
	}
	rec.Case(vk.Hash(h...), nonEmptyLookups > 0 && overlaps > 0)
	if rec.WantSample() {
		n := len(ops)
		if n > 12 {
			n = 12
		}
		rec.Sample(map[string]interface{}{"case": ci, "mqtt": mqtt, "first_ops": ops[:n], "total_ops": len(ops), "nonempty_lookups": nonEmptyLookups})
	}
}

// ---------------------------------------------------------------------------------------------
// concurrent histories, porcupine partitioned per subscriber

type cIn struct {
	kind int // 0 sub, 1 unsub, 2 observe
	f    int // filter index (sub/unsub)
	ch   []string
}

type cEv struct {
	sub  int
	in   cIn
	out  bool
	call int64
	ret  int64
	gid  int
}

func TestC01Conc(t *testing.T) {
	rec := vk.New("C01", "conc")
	defer rec.Finish(t)
	rec.Rule("case = one concurrent history: 4-8 mutator goroutines (each sole owner of its subscriber ids) and 2-4 lookup goroutines on one real Trie " +
		"under -race; call/return stamped from one atomic counter; checked with porcupine partitioned per subscriber (state = that subscriber's filter set); " +
		"non-trivial = at least one lookup overlapped a mutation in time and observed a member; distinct = hash of the recorded call/return order")
	ncases := vk.N(120, 40000)
	for ci := 0; ci < ncases; ci++ {
		if !vk.Mine(ci) {
			continue
		}
		runConcCase(rec, ci)
	}
}

func runConcCase(rec *vk.Rec, ci int) {
	r := vk.NewRand(vk.Seed(), "C01conc", ci)
	mqtt := ci%2 == 1
	trie := newTrie(mqtt)
	// filter universe of the case (no share groups: their result is not a function of state)
	var filts []filt
	seenF := map[string]bool{}
	for tries := 0; len(filts) < 10 && tries < 200; tries++ {
		f := genFilter(r, mqtt, filts, false)
		f.contract = 0
		if seenF[f.String()] { // one bit per distinct filter: the trie identifies filters by value
			continue
		}
		seenF[f.String()] = true
		filts = append(filts, f)
	}
	var chans [][]string
	for i := 0; i < 8; i++ {
		chans = append(chans, genChannel(r, filts))
	}
	nmut := r.Range(4, 8)
	nlook := r.Range(2, 4)
	opsPer := r.Range(15, 40)
	var clock int64
	var mu sync.Mutex
	var evs []cEv
	var wg sync.WaitGroup
	start := make(chan struct{})
	// owners: subscriber i belongs to mutator i%nmut
	for g := 0; g < nmut; g++ {
		gr := vk.NewRand(vk.Seed(), fmt.Sprintf("C01conc-m%d", g), ci)
		wg.Add(1)
		go func(g int, gr *vk.Rand) {
			defer wg.Done()
			var mine []int
			for s := range subPool {
				if s%nmut == g {
					mine = append(mine, s)
				}
			}
			local := make([]cEv, 0, opsPer)
			<-start
			for i := 0; i < opsPer; i++ {
				s := mine[gr.Intn(len(mine))]
				fi := gr.Intn(len(filts))
				k := 0
				if gr.Chance(45) {
					k = 1
				}
				ssid := filts[fi].ssid()
				c := atomic.AddInt64(&clock, 1)
				if k == 0 {
					trie.Subscribe(ssid, subPool[s])
				} else {
					trie.Unsubscribe(ssid, subPool[s])
				}
				rt := atomic.AddInt64(&clock, 1)
				local = append(local, cEv{sub: s, in: cIn{kind: k, f: fi}, call: c, ret: rt, gid: g})
				if gr.Chance(10) {
					time.Sleep(time.Microsecond)
				}
			}
			mu.Lock()
			evs = append(evs, local...)
			mu.Unlock()
		}(g, gr)
	}
	for g := 0; g < nlook; g++ {
		gr := vk.NewRand(vk.Seed(), fmt.Sprintf("C01conc-l%d", g), ci)
		wg.Add(1)
		go func(g int, gr *vk.Rand) {
			defer wg.Done()
			local := make([]cEv, 0, opsPer*len(subPool))
			<-start
			for i := 0; i < opsPer; i++ {
				ch := chans[gr.Intn(len(chans))]
				ssid := toSsid(0, ch)
				c := atomic.AddInt64(&clock, 1)
				res := trie.Lookup(ssid, nil)
				rt := atomic.AddInt64(&clock, 1)
				in := map[string]bool{}
				for _, s := range res {
					in[s.ID()] = true
				}
				for s := range subPool {
					local = append(local, cEv{sub: s, in: cIn{kind: 2, ch: ch}, out: in[subPool[s].id], call: c, ret: rt, gid: nmut + g})
				}
			}
			mu.Lock()
			evs = append(evs, local...)
			mu.Unlock()
		}(g, gr)
	}
	close(start)
	wg.Wait()

	pm := porcupine.Model{
		Init: func() interface{} { return uint64(0) },
		Step: func(st, in, out interface{}) (bool, interface{}) {
			s := st.(uint64)
			i := in.(cIn)
			switch i.kind {
			case 0:
				return true, s | (1 << uint(i.f))
			case 1:
				return true, s &^ (1 << uint(i.f))
			}
			exp := false
			for fi := range filts {
				if s&(1<<uint(fi)) != 0 && matches(mqtt, filts[fi].levels, i.ch) {
					exp = true
					break
				}
			}
			return exp == out.(bool), s
		},
		Equal: func(a, b interface{}) bool { return a.(uint64) == b.(uint64) },
	}
	overlapped, positive := false, false
	// detect a lookup overlapping a mutation
	var muts, looks []cEv
	for _, e := range evs {
		if e.in.kind == 2 {
			if e.sub == 0 {
				looks = append(looks, e)
			}
			if e.out {
				positive = true
			}
		} else {
			muts = append(muts, e)
		}
	}
	for _, l := range looks {
		for _, m := range muts {
			if m.call < l.ret && l.call < m.ret {
				overlapped = true
				break
			}
		}
		if overlapped {
			break
		}
	}
	if overlapped {
		rec.Inc("histories_with_overlap")
	}
	for s := range subPool {
		var ops []porcupine.Operation
		for _, e := range evs {
			if e.sub == s {
				ops = append(ops, porcupine.Operation{ClientId: e.gid, Input: e.in, Output: e.out, Call: e.call, Return: e.ret})
			}
		}
		res := porcupine.CheckOperationsTimeout(pm, ops, 10*time.Second)
		rec.Inc("partitions_checked")
		rec.Add("operations_checked", int64(len(ops)))
		switch res {
		case porcupine.Illegal:
			var w []string
			sort.Slice(ops, func(i, j int) bool { return ops[i].Call < ops[j].Call })
			for _, o := range ops {
				i := o.Input.(cIn)
				switch i.kind {
				case 0:
					w = append(w, fmt.Sprintf("[%d,%d] g%d sub %s", o.Call, o.Return, o.ClientId, filts[i.f]))
				case 1:
					w = append(w, fmt.Sprintf("[%d,%d] g%d unsub %s", o.Call, o.Return, o.ClientId, filts[i.f]))
				default:
					w = append(w, fmt.Sprintf("[%d,%d] g%d lookup %s -> %v", o.Call, o.Return, o.ClientId, strings.Join(i.ch, "/"), o.Output))
				}
			}
			rec.Violation(ci, "not-linearizable", fmt.Sprintf("mqtt=%v: history of subscriber %s is not linearizable against the filter-set model", mqtt, subPool[s].id),
				map[string]interface{}{"mqtt": mqtt, "subscriber": subPool[s].id, "history": w})
		case porcupine.Unknown:
			rec.Inconclusive(fmt.Sprintf("case %d subscriber %d: porcupine timeout", ci, s))
		}
	}
	// final state: Count and dump against the sequential replay of each owner's own operations
	fin := newModel(mqtt)
	sort.Slice(muts, func(i, j int) bool { return muts[i].call < muts[j].call })
	for _, e := range muts { // per subscriber the owner is sequential, so call order per subscriber is program order
		if e.in.kind == 0 {
			fin.sub(filts[e.in.f], e.sub)
		} else {
			fin.unsub(filts[e.in.f], e.sub)
		}
	}
	if c := trie.Count(); c != fin.count() {
		rec.Violation(ci, "count-mismatch-concurrent", fmt.Sprintf("after concurrent history Count()=%d, model=%d", c, fin.count()), nil)
	}
	_, ds := dumpSet(trie)
	if d := diffSets(ds, modelSet(fin)); d != "" {
		rec.Violation(ci, "dump-mismatch-concurrent", d, nil)
	}
	// teardown
	for k, subs := range fin.pairs {
		for s := range subs {
			trie.Unsubscribe(fin.filts[k].ssid(), subPool[s])
		}
	}
	if nodes, ds := dumpSet(trie); nodes != 1 || len(ds) != 0 || trie.Count() != 0 {
		rec.Violation(ci, "not-empty-after-removal-concurrent", fmt.Sprintf("nodes=%d pairs=%d count=%d", nodes, len(ds), trie.Count()), nil)
	}
	// interleaving fingerprint: order of call/return events by goroutine
	sort.Slice(evs, func(i, j int) bool { return evs[i].call < evs[j].call })
	fp := make([]interface{}, 0, len(evs))
	last := int64(-1)
	for _, e := range evs {
		if e.call != last {
			fp = append(fp, e.gid, e.ret-e.call)
			last = e.call
		}
	}
	rec.Case(vk.Hash(fp...), overlapped && positive)
	if rec.WantSample() {
		var fs []string
		for _, f := range filts {
			fs = append(fs, f.String())
		}
		rec.Sample(map[string]interface{}{"case": ci, "mqtt": mqtt, "filters": fs, "mutators": nmut, "lookers": nlook, "ops_per_goroutine": opsPer, "events": len(evs), "overlap_seen": overlapped})
	}
}
