//go:build verif

// C01, concurrent lookups with share groups: the subscriptions are static, many goroutines look up
// at once, every result must satisfy the share-group oracle. Runs in a child process because a
// fatal "concurrent map" error of the code under test cannot be recovered in-process.
package trielab

import (
	"fmt"
	"os"
	"strconv"
	"strings"
	"sync"
	"testing"
	"time"

	"github.com/emitter-io/emitter/verif/lab/isolate"
	"github.com/emitter-io/emitter/verif/lab/vk"
)

func shareCase(in []byte) string {
	parts := strings.Split(string(in), ",")
	seed, _ := strconv.ParseInt(parts[0], 10, 64)
	ci, _ := strconv.Atoi(parts[1])
	r := vk.NewRand(seed, "C01share", ci)
	mqtt := ci%2 == 1
	trie := newTrie(mqtt)
	m := newModel(mqtt)
	var prev []filt
	for i := 0; i < 40; i++ {
		f := genFilter(r, mqtt, prev, true)
		if r.Chance(50) {
			f.group = r.Pick("g1", "g2")
		}
		f.contract = 0
		s := r.Intn(len(subPool))
		prev = append(prev, f)
		trie.Subscribe(f.ssid(), subPool[s])
		m.sub(f, s)
	}
	var chans [][]string
	for i := 0; i < 12; i++ {
		chans = append(chans, genChannel(r, prev))
	}
	type exp struct {
		D map[int]bool
		G map[string]map[int]bool
	}
	exps := make([]exp, len(chans))
	for i, ch := range chans {
		d, g := m.expect(0, ch, nil)
		exps[i] = exp{d, g}
	}
	G := 8
	var wg sync.WaitGroup
	var mu sync.Mutex
	bad := ""
	for g := 0; g < G; g++ {
		gr := vk.NewRand(seed, fmt.Sprintf("C01share-g%d", g), ci)
		wg.Add(1)
		go func(gr *vk.Rand) {
			defer wg.Done()
			for k := 0; k < 1500; k++ {
				ci := gr.Intn(len(chans))
				res := trie.Lookup(toSsid(0, chans[ci]), nil)
				R := map[int]bool{}
				for _, s := range res {
					for i, p := range subPool {
						if s != nil && p.id == s.ID() {
							R[i] = true
						}
					}
				}
				if why := checkResult(R, exps[ci].D, exps[ci].G); why != "" {
					mu.Lock()
					if bad == "" {
						bad = fmt.Sprintf("mqtt=%v channel %s: %s", mqtt, strings.Join(chans[ci], "/"), why)
					}
					mu.Unlock()
					return
				}
			}
		}(gr)
	}
	wg.Wait()
	if bad != "" {
		return "bad: " + bad
	}
	return "ok"
}

func TestIsolateChild(t *testing.T) {
	if !isolate.ChildMain(map[string]isolate.Handler{"share": shareCase}) {
		t.Skip("child only")
	}
}

func TestC01Share(t *testing.T) {
	rec := vk.New("C01", "share")
	defer rec.Finish(t)
	rec.Rule("case = a real Trie holding 40 static subscriptions (half of them in share groups g1/g2, members that also subscribe directly), 8 goroutines x 1500 concurrent lookups over 12 channels in a child process; " +
		"every result must contain every direct matcher, nobody without a matching subscription, and exactly one member per share group with a matching member; a fatal error of the process is a violation; " +
		"non-trivial = every case (all have share groups); distinct = (seed, case)")
	n := vk.N(24, 1500)
	var ins [][]byte
	var idx []int
	for ci := 0; ci < n; ci++ {
		if vk.Mine(ci) {
			ins = append(ins, []byte(fmt.Sprintf("%d,%d", vk.Seed(), ci)))
			idx = append(idx, ci)
		}
	}
	outs, err := isolate.Run(os.Getenv("VERIF_BIN"), "TestIsolateChild", "share", os.Getenv("VERIF_SCRATCH"), ins, 300*time.Second)
	if err != nil {
		rec.Inconclusive("isolate: " + err.Error())
		return
	}
	for i, o := range outs {
		ci := idx[i]
		rec.Case(vk.Hash("share", vk.Seed(), ci), true)
		rec.Add("concurrent_share_lookups", 8*1500)
		switch {
		case o.Died:
			rec.Violation(ci, "concurrent-share-lookup/process-"+o.Kind, fmt.Sprintf("concurrent lookups on a trie with share groups end the process: %s", o.Signature), map[string]interface{}{"stderr": o.Tail})
		case strings.HasPrefix(o.Result, "bad") || strings.HasPrefix(o.Result, "panic"):
			rec.Violation(ci, "concurrent-share-lookup/wrong-result", o.Result, nil)
		case o.Result == "":
			rec.Inconclusive("no result")
		}
		if rec.WantSample() {
			rec.Sample(map[string]interface{}{"case": ci, "result": o.Result})
		}
	}
}
