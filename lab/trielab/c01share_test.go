//go:build verif

// C01, concurrent lookups with share groups: the subscriptions are static, many goroutines look up
// at once, every result must satisfy the share-group oracle. Runs in a child process because a
// fatal "concurrent map" error of the code under test cannot be recovered in-process.
package trielab

import (
	"fmt"
	"os"
	"strconv"
	"strings"
	"sync"
	"testing"
	"time"

	"github.com/emitter-io/emitter/verif/lab/isolate"
	"github.com/emitter-io/emitter/verif/lab/vk"
)

func shareCase(in []byte) string {
	parts := strings.Split(string(in), ",")
	seed, _ := strconv.ParseInt(parts[0], 10, 64)
	ci, _ := strconv.Atoi(parts[1])
	r := vk.NewRand(seed, "C01share", ci)
	mqtt := ci%2 == 1
	trie := newTrie(mqtt)
	m := newModel(mqtt)
	var prev []filt
	for i := 0; i < 40; i++ {
		f := genFilter(r, mqtt, prev, true)
		if r.Chance(50) {
			f.group = r.Pick("g1", "g2")
		}
		f.contract = 0
		s := r.Intn(len(subPool))
		prev = append(prev, f)
		trie.Subscribe(f.ssid(), subPool[s])
		m.sub(f, s)
	}
	var chans [][]string
	for i := 0; i < 12; i++ {
		chans = append(chans, genChannel(r, prev))
	}
	type exp struct {
		D map[int]bool
		G map[string]map[int]bool
	}
	exps := make([]exp, len(chans))
	for i, ch := range chans {
		d, g := m.expect(0, ch, nil)
		exps[i] = exp{d, g}
	}
	G := 8
	var wg sync.WaitGroup
	var mu sync.Mutex
	bad := ""
	for g := 0; g < G; g++ {
		gr := vk.NewRand(seed, fmt.Sprintf("C01share-g%d", g), ci)
		wg.Add(1)
		go func(gr *vk.Rand) {
			defer wg.Done()
			for k := 0; k < 1500; k++ {
				ci := gr.Intn(len(chans))
				res := trie.Lookup(toSsid(0, chans[ci]), nil)
				R := map[int]bool{}
				for _, s := range res {
					for i, p := range subPool {
						if s != nil && p.id == s.ID() {
							R[i] = true
						}
					}
				}
				if why := checkResult(R, exps[ci].D, exps[ci].G); why != "" {
					mu.Lock()
					if bad == "" {
						bad = fmt.Sprintf("mqtt=%v channel %s: %s", mqtt, strings.Join(chans[ci], "/"), why)
					}
					mu.Unlock()
					return
				}
			}
		}(gr)
	}
	wg.Wait()
	if bad != "" {
		return "bad: " + bad
	}
	return "ok"
}

// moverCase: lookups concurrent with subscribers that MOVE between a direct subscription and a share group, or hand the
// single seat of a share group to one another. The result of such a lookup is not a function of one state, but three facts
// follow from "a lookup sees one state of the index" whatever the interleaving: the mover M, who subscribes the new filter
// before it gives up the old one, holds a matching subscription at every instant and must be in every result; A and B are
// never members of group gs at the same time and must never both be in a result; the static direct subscribers are always
// there and nobody else ever is.
func moverCase(in []byte) string {
	parts := strings.Split(string(in), ",")
	seed, _ := strconv.ParseInt(parts[0], 10, 64)
	ci, _ := strconv.Atoi(parts[1])
	r := vk.NewRand(seed, "C01mover", ci)
	mqtt := ci%2 == 1
	trie := newTrie(mqtt)
	lv := []string{litLevels[r.Intn(len(litLevels))], litLevels[r.Intn(len(litLevels))]}
	direct := filt{levels: lv}
	viaGroup := filt{levels: lv, group: "gm"}
	seat := filt{levels: lv, group: "gs"}
	parent := filt{levels: lv[:1]}
	static := map[int]bool{}
	for i := 3; i < 3+r.Range(1, 4); i++ {
		f := direct
		if !mqtt && r.Bool() {
			f = parent // a prefix matches in emitter mode
		}
		trie.Subscribe(f.ssid(), subPool[i])
		static[i] = true
	}
	const M, A, B = 0, 1, 2
	trie.Subscribe(direct.ssid(), subPool[M])
	trie.Subscribe(seat.ssid(), subPool[A])
	stop := make(chan struct{})
	var wg, lw sync.WaitGroup
	wg.Add(2)
	go func() { // the mover
		defer wg.Done()
		for {
			select {
			case <-stop:
				return
			default:
			}
			trie.Subscribe(viaGroup.ssid(), subPool[M])
			trie.Unsubscribe(direct.ssid(), subPool[M])
			trie.Subscribe(direct.ssid(), subPool[M])
			trie.Unsubscribe(viaGroup.ssid(), subPool[M])
		}
	}()
	go func() { // the seat of group gs changes hands
		defer wg.Done()
		for {
			select {
			case <-stop:
				return
			default:
			}
			trie.Unsubscribe(seat.ssid(), subPool[A])
			trie.Subscribe(seat.ssid(), subPool[B])
			trie.Unsubscribe(seat.ssid(), subPool[B])
			trie.Subscribe(seat.ssid(), subPool[A])
		}
	}()
	var mu sync.Mutex
	bad := ""
	for g := 0; g < 6; g++ {
		lw.Add(1)
		go func() {
			defer lw.Done()
			for k := 0; k < 6000; k++ {
				res := trie.Lookup(toSsid(0, lv), nil)
				R := map[int]bool{}
				dup := false
				for _, s := range res {
					for i, p := range subPool {
						if s != nil && p.id == s.ID() {
							if R[i] {
								dup = true
							}
							R[i] = true
						}
					}
				}
				why := ""
				switch {
				case !R[M]:
					why = "the mover holds a matching subscription at every instant (it subscribes the share-group filter before it drops the direct one and vice versa) but is missing from a lookup"
				case R[A] && R[B]:
					why = "subscribers A and B are never members of the share group at the same time but one lookup returned both"
				case dup:
					why = "a subscriber appears twice in one lookup result"
				}
				for i := range static {
					if !R[i] && why == "" {
						why = fmt.Sprintf("static direct subscriber %s missing from a lookup", subPool[i].id)
					}
				}
				for i := range R {
					if !static[i] && i != M && i != A && i != B && why == "" {
						why = fmt.Sprintf("subscriber %s without any subscription is in a lookup result", subPool[i].id)
					}
				}
				if why != "" {
					mu.Lock()
					if bad == "" {
						bad = fmt.Sprintf("mqtt=%v channel %s: %s", mqtt, strings.Join(lv, "/"), why)
					}
					mu.Unlock()
					return
				}
			}
		}()
	}
	lw.Wait()
	close(stop)
	wg.Wait()
	if bad != "" {
		return "bad: " + bad
	}
	return "ok"
}

func TestIsolateChild(t *testing.T) {
	if !isolate.ChildMain(map[string]isolate.Handler{"share": func(in []byte) string {
		if strings.HasSuffix(string(in), ",mover") {
			return moverCase(in)
		}
		return shareCase(in)
	}}) {
		t.Skip("child only")
	}
}

func TestC01Share(t *testing.T) {
	rec := vk.New("C01", "share")
	defer rec.Finish(t)
	rec.Rule("case = a real Trie holding 40 static subscriptions (half of them in share groups g1/g2, members that also subscribe directly), 8 goroutines x 1500 concurrent lookups over 12 channels in a child process; " +
		"every result must contain every direct matcher, nobody without a matching subscription, and exactly one member per share group with a matching member; a fatal error of the process is a violation; " +
		"every other pair of cases instead has lookups (6 goroutines x 6000) concurrent with a subscriber that moves between a direct filter and a share group (always holding one: must be in every result) and two subscribers handing the single seat of a group to one another (never both in a result); " +
		"non-trivial = every case (all have share groups); distinct = (seed, case)")
	n := vk.N(24, 1500)
	var ins [][]byte
	var idx []int
	for ci := 0; ci < n; ci++ {
		if vk.Mine(ci) {
			if (ci/2)%2 == 1 { // every other pair of cases: movers instead of static subscriptions
				ins = append(ins, []byte(fmt.Sprintf("%d,%d,mover", vk.Seed(), ci)))
			} else {
				ins = append(ins, []byte(fmt.Sprintf("%d,%d", vk.Seed(), ci)))
			}
			idx = append(idx, ci)
		}
	}
	outs, err := isolate.Run(os.Getenv("VERIF_BIN"), "TestIsolateChild", "share", os.Getenv("VERIF_SCRATCH"), ins, 300*time.Second)
	if err != nil {
		rec.Inconclusive("isolate: " + err.Error())
		return
	}
	for i, o := range outs {
		ci := idx[i]
		rec.Case(vk.Hash("share", vk.Seed(), ci), true)
		rec.Add("concurrent_share_lookups", 8*1500)
		switch {
		case o.Died:
			rec.Violation(ci, "concurrent-share-lookup/process-"+o.Kind, fmt.Sprintf("concurrent lookups on a trie with share groups end the process: %s", o.Signature), map[string]interface{}{"stderr": o.Tail})
		case strings.HasPrefix(o.Result, "bad") || strings.HasPrefix(o.Result, "panic"):
			rec.Violation(ci, "concurrent-share-lookup/wrong-result", o.Result, nil)
		case o.Result == "":
			rec.Inconclusive("no result")
		}
		if rec.WantSample() {
			rec.Sample(map[string]interface{}{"case": ci, "result": o.Result})
		}
	}
}
