//go:build verif

// C20 — licences and key ciphers round-trip (DESIGN §5 C20).
package codeclab

import (
	"bytes"
	"encoding/base64"
	"fmt"
	"os"
	"strings"
	"testing"
	"time"

	"github.com/emitter-io/emitter/verif/lab/isolate"
	"github.com/golang/snappy"

	"github.com/emitter-io/emitter/internal/security"
	"github.com/emitter-io/emitter/internal/security/license"
	"github.com/emitter-io/emitter/verif/lab/vk"
)

func newLic(v int) license.License {
	switch v {
	case 1:
		return license.NewV1()
	case 2:
		return license.NewV2()
	}
	return license.NewV3()
}

const urlAlphabet = "ABCDEFGHIJKLMNOPQRSTUVWXYZabcdefghijklmnopqrstuvwxyz0123456789-_"

// parse calls license.Parse and converts a panic into a report.
func parse(s string) (l license.License, err error, panicked string) {
	defer func() {
		if r := recover(); r != nil {
			panicked = fmt.Sprint(r)
		}
	}()
	l, err = license.Parse(s)
	if err == nil && l != nil {
		_ = l.Contract() // a typed-nil licence with a nil error would panic here
		_, _ = l.Cipher()
	}
	return
}

func decrypt(c license.Cipher, s string) (k security.Key, err error, panicked string) {
	defer func() {
		if r := recover(); r != nil {
			panicked = fmt.Sprint(r)
		}
	}()
	k, err = c.DecryptKey([]byte(s))
	return
}

func TestC20(t *testing.T) {
	rec := vk.New("C20", "roundtrip")
	defer rec.Finish(t)
	nk := vk.N(30000, 3000000)
	rec.Rule(fmt.Sprintf("per licence version 1-3 (fresh licences per shard, plus v2/v3 licences of every master index 0..255 x five contract/signature magnitudes): String() -> Parse (contract, signature, master index, and cipher equality shown by cross-decryption); %d random and boundary 24-byte keys per version through EncryptKey/DecryptKey (32 URL-safe characters, round trip, all ciphertexts in a set, pairs differing in one bit); "+
		"candidate key strings of every length 0..40 over valid and invalid alphabets must be rejected unless they are 32 valid characters; licence strings (random, every truncation and byte mutation of valid v1/v2/v3 licences, every suffix :1 :2 :3) must yield a licence or an error, never a panic; "+
		"non-trivial = every case; distinct = (version, input)", nk))
	shard, _ := vk.Shard()
	r := vk.NewRand(vk.Seed(), "C20", shard)
	caseNo := 0
	// licences of every master index and several contract/signature magnitudes (v2, v3)
	for v := 2; v <= 3; v++ {
		for idx := 0; idx < 256; idx++ {
			for _, mag := range []uint32{0, 0x7f, 0x3fff, 0x1fffff, 0xffffffff} {
				caseNo++
				if !vk.Mine(caseNo) {
					continue
				}
				user, sign := mag&r.U32()|mag>>1+1, mag&r.U32()|mag>>3
				var lic license.License
				if v == 2 {
					lic = &license.V2{EncryptionKey: r.Bytes(32), EncryptionSalt: r.Bytes(24), User: user, Sign: sign, Index: uint32(idx)}
				} else {
					lic = &license.V3{EncryptionKey: r.Bytes(32), EncryptionSalt: r.Bytes(16), User: user, Sign: sign, Index: uint32(idx)}
				}
				s := lic.String()
				back, err, pan := parse(s)
				rec.Case(vk.Hash("licidx", v, idx, mag, s), true)
				rec.Inc("licences_by_index_round_tripped")
				if pan != "" || err != nil || back == nil || back.Contract() != lic.Contract() || back.Signature() != lic.Signature() || back.Master() != lic.Master() || back.String() != s {
					rec.Violation(caseNo, fmt.Sprintf("licence-roundtrip/v%d", v), fmt.Sprintf("licence with master index %d contract %#x signature %#x: Parse(String()) = err %v panic %q", idx, user, sign, err, pan), map[string]interface{}{"licence": s, "index": idx})
				}
			}
		}
	}
	// licences whose key material contains exactly one short repeated sequence (4-9 bytes, at a seeded distance): compressors
	// take a different path for them than for random bytes (literal only) or for constant/periodic material (long copies)
	for v := 2; v <= 3; v++ {
		for q := 0; q < vk.N(1500, 40000); q++ {
			caseNo++
			if !vk.Mine(caseNo) {
				continue
			}
			key, salt := r.Bytes(32), r.Bytes(map[int]int{2: 24, 3: 16}[v])
			all := append(append([]byte{}, key...), salt...)
			rl := 4 + r.Intn(6)
			src := r.Intn(len(all) - 2*rl)
			dst := src + rl + r.Intn(len(all)-src-2*rl+1)
			copy(all[dst:dst+rl], all[src:src+rl])
			copy(key, all[:32])
			copy(salt, all[32:])
			var lic license.License
			if v == 2 {
				lic = &license.V2{EncryptionKey: key, EncryptionSalt: salt, User: r.U32(), Sign: r.U32(), Index: uint32(r.Intn(4))}
			} else {
				lic = &license.V3{EncryptionKey: key, EncryptionSalt: salt, User: r.U32(), Sign: r.U32(), Index: uint32(r.Intn(4))}
			}
			s := lic.String()
			back, err, pan := parse(s)
			rec.Case(vk.Hash("licrep", v, s), true)
			rec.Inc("licences_with_one_repeat_round_tripped")
			if pan != "" || err != nil || back == nil || back.Contract() != lic.Contract() || back.Signature() != lic.Signature() || back.Master() != lic.Master() || back.String() != s {
				rec.Violation(caseNo, fmt.Sprintf("licence-roundtrip/v%d", v), fmt.Sprintf("licence whose key material repeats %d bytes (offset %d again at %d): Parse(String()) = err %v panic %q", rl, src, dst, err, pan), map[string]interface{}{"licence": s})
			}
		}
	}
	for v := 1; v <= 3; v++ {
		for li := 0; li < vk.N(2, 6); li++ {
			lic := newLic(v)
			s := lic.String()
			caseNo++
			back, err, pan := parse(s)
			rec.Case(vk.Hash("lic", v, s), true)
			if pan != "" || err != nil || back == nil {
				rec.Violation(caseNo, fmt.Sprintf("licence-roundtrip/v%d", v), fmt.Sprintf("Parse(New().String()) = err %v panic %q", err, pan), map[string]interface{}{"licence": s})
				continue
			}
			if back.Contract() != lic.Contract() || back.Signature() != lic.Signature() || back.Master() != lic.Master() || back.String() != s {
				rec.Violation(caseNo, fmt.Sprintf("licence-roundtrip/v%d", v), "parsed licence differs in contract/signature/master/String()", map[string]interface{}{"licence": s})
			}
			c1, e1 := lic.Cipher()
			c2, e2 := back.Cipher()
			if e1 != nil || e2 != nil {
				rec.Violation(caseNo, fmt.Sprintf("licence-cipher/v%d", v), fmt.Sprintf("Cipher(): %v %v", e1, e2), nil)
				continue
			}
			seen := map[string][]byte{}
			per := nk / vk.N(2, 6)
			for i := 0; i < per; i++ {
				caseNo++
				if !vk.Mine(caseNo) {
					continue
				}
				k := security.Key(r.Bytes(24))
				switch i % 16 {
				case 0:
					k = security.Key(make([]byte, 24))
				case 1:
					k = security.Key(bytes.Repeat([]byte{0xff}, 24))
				case 2: // every salt with one body
					k = security.Key(make([]byte, 24))
					k.SetSalt(uint16(i))
				case 3:
					k.SetPermissions(uint8(i >> 4))
				}
				enc, err := c1.EncryptKey(k)
				rec.Case(vk.Hash("key", v, li, string(k)), true)
				if err != nil || len(enc) != 32 || strings.Trim(enc, urlAlphabet) != "" {
					rec.Violation(caseNo, fmt.Sprintf("ciphertext-shape/v%d", v), fmt.Sprintf("EncryptKey(%x) = %q, %v", []byte(k), enc, err), nil)
					continue
				}
				dec, err, pan := decrypt(c2, enc) // decrypt with the PARSED licence's cipher
				if pan != "" || err != nil || !bytes.Equal(dec, k) {
					rec.Violation(caseNo, fmt.Sprintf("key-roundtrip/v%d", v), fmt.Sprintf("key %x -> %s -> %x (err %v panic %q)", []byte(k), enc, []byte(dec), err, pan), nil)
					continue
				}
				if prev, ok := seen[enc]; ok && !bytes.Equal(prev, k) {
					rec.Violation(caseNo, fmt.Sprintf("distinct-keys-equal-ciphertext/v%d", v), fmt.Sprintf("%x and %x both encrypt to %s", prev, []byte(k), enc), nil)
				}
				seen[enc] = append([]byte(nil), k...)
				// a neighbour differing in one bit must encrypt differently
				if i%8 == 0 {
					n := append(security.Key(nil), k...)
					bit := r.Intn(192)
					n[bit/8] ^= 1 << uint(bit%8)
					if e2, _ := c1.EncryptKey(n); e2 == enc {
						rec.Violation(caseNo, fmt.Sprintf("distinct-keys-equal-ciphertext/v%d", v), fmt.Sprintf("keys differing in bit %d encrypt to the same string %s", bit, enc), nil)
					}
				}
				if rec.WantSample() {
					rec.Sample(map[string]interface{}{"version": v, "key": fmt.Sprintf("%x", []byte(k)), "ciphertext": enc})
				}
			}
			rec.Add("keys_round_tripped", int64(len(seen)))
			// fresh cipher instances: a cipher is a function of the licence, so a string produced by one instance (the issuing
			// broker) must decrypt to the same key on any other instance (the broker after a restart, another broker of the
			// cluster), whatever each instance has processed before - short op sequences on instances created for the purpose,
			// salts from the edge set first (a zero salt as the very first operation of an instance, then another salt, ...)
			edgeSalts := []uint16{0, 1, 2, 0x00ff, 0x0100, 0x7fff, 0x8000, 0xffff}
			for q := 0; q < vk.N(120, 4000); q++ {
				caseNo++
				if !vk.Mine(caseNo) {
					continue
				}
				ca, ea := lic.Cipher()
				cb, eb := back.Cipher()
				if ea != nil || eb != nil {
					break
				}
				type issuedKey struct {
					k   security.Key
					s   string
					who int
				}
				var issuedKeys []issuedKey
				var ops []string
				bad := ""
				nops := 3 + r.Intn(5)
				for o := 0; o < nops && bad == ""; o++ {
					inst, ci2 := ca, 0
					if r.Chance(40) {
						inst, ci2 = cb, 1
					}
					if len(issuedKeys) == 0 || r.Chance(50) {
						k := security.Key(r.Bytes(24))
						if o < 2 || r.Chance(50) {
							k.SetSalt(edgeSalts[(q+o*3)%len(edgeSalts)])
						}
						if o == 0 && q%3 == 0 {
							k.SetSalt(0)
						}
						e, err := inst.EncryptKey(k)
						ops = append(ops, fmt.Sprintf("instance %d encrypts a key with salt %#04x -> %s", ci2, k.Salt(), e))
						if err != nil || len(e) != 32 {
							bad = fmt.Sprintf("EncryptKey: %v (%q)", err, e)
							break
						}
						issuedKeys = append(issuedKeys, issuedKey{append(security.Key(nil), k...), e, ci2})
						continue
					}
					ik := issuedKeys[r.Intn(len(issuedKeys))]
					d, err, pan := decrypt(inst, ik.s)
					ops = append(ops, fmt.Sprintf("instance %d decrypts %s (issued by instance %d, salt %#04x)", ci2, ik.s, ik.who, ik.k.Salt()))
					if err != nil || pan != "" || !bytes.Equal(d, ik.k) {
						bad = fmt.Sprintf("instance %d decrypts %s to %x (err %v), the key that was encrypted is %x", ci2, ik.s, []byte(d), err, []byte(ik.k))
					}
				}
				rec.Case(vk.Hash("fresh", v, li, q, strings.Join(ops, ";")), true)
				rec.Inc("fresh_instance_sequences")
				if bad != "" {
					rec.Violation(caseNo, fmt.Sprintf("key-roundtrip-across-instances/v%d", v), fmt.Sprintf("licence v%d, two fresh cipher instances of one licence: %s", v, bad), map[string]interface{}{"ops": ops})
				}
			}
			// a valid key with characters that lenient decoders skip (line breaks, blanks, padding) inserted, prepended or
			// appended: not 32 valid characters, must be rejected - otherwise one key has many spellings
			validK, _ := c1.EncryptKey(security.Key(r.Bytes(24)))
			for _, ins := range []string{"\n", "\r", "\r\n", " ", "\t", "=", "==", "\x00"} {
				for _, pos := range []int{0, 1, 4, 15, 16, 31, 32} {
					caseNo++
					if !vk.Mine(caseNo) {
						continue
					}
					cand := validK[:pos] + ins + validK[pos:]
					_, err, pan := decrypt(c1, cand)
					rec.Case(vk.Hash("cand-ins", v, ins, pos, cand), true)
					rec.Inc("candidate_strings")
					if pan != "" {
						rec.Violation(caseNo, fmt.Sprintf("decrypt-panics/v%d", v), fmt.Sprintf("DecryptKey(%q) panics: %s", cand, pan), nil)
					} else if err == nil {
						rec.Violation(caseNo, fmt.Sprintf("invalid-key-string-accepted/v%d", v), fmt.Sprintf("DecryptKey(%q) (a valid key with %q inserted at %d, length %d) returned no error", cand, ins, pos, len(cand)), nil)
					}
				}
			}
			// candidate key strings that must be rejected
			valid, _ := c1.EncryptKey(security.Key(r.Bytes(24)))
			for l := 0; l <= 40; l++ {
				for variant := 0; variant < 6; variant++ {
					caseNo++
					if !vk.Mine(caseNo) {
						continue
					}
					var cand string
					switch variant {
					case 0:
						cand = strings.Repeat("A", l)
					case 1:
						if l <= 32 {
							cand = valid[:l]
						} else {
							cand = valid + strings.Repeat("B", l-32)
						}
					case 2: // one invalid character
						b := []byte(strings.Repeat("a", l))
						if l > 0 {
							b[r.Intn(l)] = "!=+/ .\x00\xff"[r.Intn(8)]
						}
						cand = string(b)
					case 3:
						cand = string(r.Bytes(l))
					case 4:
						cand = strings.Repeat("=", l)
					case 5:
						b := []byte(valid)
						if l < 32 {
							b[l] = '+'
						}
						cand = string(b)
					}
					ok32 := len(cand) == 32 && strings.Trim(cand, urlAlphabet) == ""
					_, err, pan := decrypt(c1, cand)
					rec.Case(vk.Hash("cand", v, l, variant, cand), true)
					rec.Inc("candidate_strings")
					if pan != "" {
						rec.Violation(caseNo, fmt.Sprintf("decrypt-panics/v%d", v), fmt.Sprintf("DecryptKey(%q) panics: %s", cand, pan), nil)
					} else if !ok32 && err == nil {
						rec.Violation(caseNo, fmt.Sprintf("invalid-key-string-accepted/v%d", v), fmt.Sprintf("DecryptKey(%q) (length %d) returned no error", cand, len(cand)), nil)
					} else if ok32 && err != nil {
						rec.Violation(caseNo, fmt.Sprintf("valid-key-string-rejected/v%d", v), fmt.Sprintf("DecryptKey(%q): %v", cand, err), nil)
					}
				}
			}
			// licence strings: truncations, mutations, suffixes, random
			body := s[:len(s)-2]
			var cands []string
			for n := 0; n <= len(body); n++ {
				for _, suf := range []string{"", ":1", ":2", ":3"} {
					cands = append(cands, body[:n]+suf)
				}
			}
			for i := 0; i < vk.N(300, 20000); i++ {
				b := []byte(s)
				for m := 1 + r.Intn(3); m > 0; m-- {
					b[r.Intn(len(b))] = urlAlphabet[r.Intn(64)]
				}
				cands = append(cands, string(b))
				rb := make([]byte, r.Intn(120))
				for j := range rb {
					rb[j] = urlAlphabet[r.Intn(64)]
				}
				cands = append(cands, string(rb)+[]string{"", ":1", ":2", ":3"}[r.Intn(4)])
				cands = append(cands, string(r.Bytes(r.Intn(60))))
			}
			// a deterministic member of the class: the length prefix of the first byte slice set to 2^40
			if v >= 2 {
				if rawb, err := base64.RawURLEncoding.DecodeString(body); err == nil {
					if plain, err := snappy.Decode(nil, rawb); err == nil && len(plain) > 1 && int(plain[0]) < 0x80 {
						hostile := append([]byte{0x80, 0x80, 0x80, 0x80, 0x80, 0x20}, plain[1:]...) // uvarint(1<<40)
						cands = append(cands, base64.RawURLEncoding.EncodeToString(snappy.Encode(nil, hostile))+fmt.Sprintf(":%d", v))
					}
				}
			}
			// parsed in a child process with a memory ceiling: a fatal error cannot be recovered in-process
			var mineC [][]byte
			for _, cnd := range cands {
				caseNo++
				if vk.Mine(caseNo) {
					mineC = append(mineC, []byte(cnd))
				}
			}
			outs, err := isolate.Run(os.Getenv("VERIF_BIN"), "TestIsolateChild", "license-parse", os.Getenv("VERIF_SCRATCH"), mineC, 60*time.Second)
			if err != nil {
				rec.Inconclusive("isolate: " + err.Error())
				continue
			}
			for i, o := range outs {
				cnd := string(mineC[i])
				rec.Case(vk.Hash("parse", v, cnd), true)
				rec.Inc("licence_strings_parsed")
				ver := "v1"
				if strings.HasSuffix(cnd, ":2") {
					ver = "v2"
				} else if strings.HasSuffix(cnd, ":3") {
					ver = "v3"
				}
				switch {
				case o.Died:
					rec.Inc("licence_strings_that_killed_the_process")
					rec.Violation(caseNo, "parse-kills-process/"+ver+"/"+firstFrame(o.Signature), fmt.Sprintf("license.Parse(%q) ends the process: %s", cnd, o.Signature), map[string]interface{}{"input": cnd, "signature": o.Signature, "stderr": o.Tail})
				case strings.HasPrefix(o.Result, "panic"):
					site := "other"
					if strings.Contains(o.Result, "slice bounds") || strings.Contains(o.Result, "index out of range") {
						site = "bounds"
					}
					rec.Violation(caseNo, "parse-panics/"+ver+"/"+site, fmt.Sprintf("license.Parse(%q) %s", cnd, o.Result), map[string]interface{}{"input": cnd})
				case o.Result == "neither":
					rec.Violation(caseNo, "parse-returns-neither", fmt.Sprintf("license.Parse(%q) returned neither a licence nor an error", cnd), nil)
				case o.Result == "":
					rec.Inconclusive("no result recorded for a licence string")
				}
			}
		}
	}
}

// TestIsolateChild is the child-process entry for inputs that can be process-fatal.
func TestIsolateChild(t *testing.T) {
	if !isolate.ChildMain(map[string]isolate.Handler{
		"license-parse": func(in []byte) string {
			l, err, pan := parse(string(in))
			switch {
			case pan != "":
				return "panic: " + pan
			case err != nil:
				return "error"
			case l == nil:
				return "neither"
			}
			return "licence"
		},
	}) {
		t.Skip("child only")
	}
}

// firstFrame keeps "kind @ innermost frame" of a crash signature.
func firstFrame(sig string) string {
	if i := strings.Index(sig, " < "); i > 0 {
		return sig[:i]
	}
	return sig
}
