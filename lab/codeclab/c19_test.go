//go:build verif

// C19 — message ids and frames encode losslessly; peer forwarding drops nothing (DESIGN §5 C19).
package codeclab

import (
	"errors"
	"bytes"
	"fmt"
	"sort"
	"sync"
	"sync/atomic"
	"testing"
	"time"

	"github.com/emitter-io/emitter/internal/message"
	"github.com/emitter-io/emitter/internal/service/cluster"
	"github.com/emitter-io/emitter/verif/lab/vk"
	"github.com/weaveworks/mesh"
)

func randMsg(r *vk.Rand, big bool) message.Message {
	var m message.Message
	switch r.Intn(6) {
	case 0: // empty id
	default:
		ssid := make(message.Ssid, r.Range(2, 6))
		for i := range ssid {
			ssid[i] = r.U32()
		}
		m.ID = message.NewID(ssid)
	}
	cl := []int{0, 1, 10, 200}[r.Intn(4)]
	pl := []int{0, 1, 50, 1000}[r.Intn(4)]
	if big && r.Chance(10) {
		pl = r.Range(60000, 66000)
	}
	if cl > 0 {
		m.Channel = r.Bytes(cl)
	}
	if pl > 0 {
		m.Payload = r.Bytes(pl)
	}
	m.TTL = []uint32{0, 1, 3600, 1 << 31, 0xffffffff}[r.Intn(5)]
	if r.Chance(30) {
		m.TTL = r.U32()
	}
	return m
}

func msgEq(a, b *message.Message) bool {
	return bytes.Equal(a.ID, b.ID) && bytes.Equal(a.Channel, b.Channel) && bytes.Equal(a.Payload, b.Payload) && a.TTL == b.TTL
}

func TestC19Codec(t *testing.T) {
	rec := vk.New("C19", "codec")
	defer rec.Finish(t)
	rec.Rule("case = one value: a message (empty and maximal id/channel/payload, ttl 0..2^32-1) or a frame of 0..500 messages through Encode/Decode; an id against its inputs (ssid, second, contract); a frame split at a bound from 1 to above the frame size; " +
		"non-trivial = messages with a non-empty field, frames of >=2 messages, splits whose bound falls inside the frame; distinct = hash of the value shape")
	n := vk.N(4000, 400000)
	// decoded values are kept while later values are decoded and compared again afterwards: a decoder that hands out
	// memory it reuses for the next call passes an immediate comparison and fails this one
	type heldFrame struct {
		orig, back message.Frame
		ci         int
	}
	var held []heldFrame
	recheck := func(now int) {
		for _, h := range held {
			ok := len(h.orig) == len(h.back)
			for i := 0; ok && i < len(h.orig); i++ {
				ok = msgEq(&h.orig[i], &h.back[i])
			}
			rec.Inc("held_values_rechecked")
			if !ok {
				rec.Violation(now, "decoded-value-changed-later", fmt.Sprintf("the frame/message decoded in case %d (%d messages) equalled its original right after decoding but no longer does after the decodes of cases %d..%d", h.ci, len(h.orig), h.ci+1, now), nil)
				held = nil
				return
			}
		}
		if len(held) > 6 {
			held = held[1:]
		}
	}
	for ci := 0; ci < n; ci++ {
		if !vk.Mine(ci) {
			continue
		}
		r := vk.NewRand(vk.Seed(), "C19codec", ci)
		switch ci % 4 {
		case 0: // message round trip
			m := randMsg(r, true)
			back, err := message.DecodeMessage(m.Encode())
			rec.Case(vk.Hash("msg", len(m.ID), len(m.Channel), len(m.Payload), m.TTL), len(m.ID)+len(m.Channel)+len(m.Payload) > 0)
			if err == nil {
				held = append(held, heldFrame{message.Frame{m}, message.Frame{back}, ci})
				recheck(ci)
			}
			if err != nil || !msgEq(&m, &back) {
				rec.Violation(ci, "message-roundtrip", fmt.Sprintf("id=%d channel=%d payload=%d ttl=%d: err=%v decoded id=%d channel=%d payload=%d ttl=%d", len(m.ID), len(m.Channel), len(m.Payload), m.TTL, err, len(back.ID), len(back.Channel), len(back.Payload), back.TTL), nil)
			}
		case 1: // frame round trip
			k := []int{0, 1, 2, 7, 50, 500}[r.Intn(6)]
			f := make(message.Frame, 0, k)
			for i := 0; i < k; i++ {
				f = append(f, randMsg(r, k < 50))
			}
			back, err := message.DecodeFrame(f.Encode())
			rec.Case(vk.Hash("frame", k, ci), k >= 2)
			okk := err == nil && len(back) == len(f)
			for i := 0; okk && i < len(f); i++ {
				okk = msgEq(&f[i], &back[i])
			}
			if okk {
				held = append(held, heldFrame{f, back, ci})
				recheck(ci)
			}
			if !okk {
				rec.Violation(ci, "frame-roundtrip", fmt.Sprintf("frame of %d messages: err=%v decoded %d", k, err, len(back)), nil)
			}
		case 2: // id fields
			ssid := make(message.Ssid, r.Range(2, 8))
			for i := range ssid {
				ssid[i] = r.U32()
			}
			before := time.Now().Unix()
			id := message.NewID(ssid)
			after := time.Now().Unix()
			rec.Case(vk.Hash("id", len(ssid), ssid[0]), true)
			gs := id.Ssid()
			okk := len(gs) == len(ssid) && id.Contract() == ssid[0] && id.Time() >= before && id.Time() <= after
			for i := range ssid {
				if okk && gs[i] != ssid[i] {
					okk = false
				}
			}
			if !okk {
				rec.Violation(ci, "id-fields", fmt.Sprintf("NewID(%v): Ssid()=%v Contract()=%d Time()=%d (call between %d and %d)", ssid, gs, id.Contract(), id.Time(), before, after), nil)
			}
			// explicit second in the supported range
			tm := int64(1514764800 + r.Intn(1500000000))
			id.SetTime(tm)
			if id.Time() != tm {
				rec.Violation(ci, "id-time", fmt.Sprintf("SetTime(%d) -> Time()=%d", tm, id.Time()), nil)
			}
			// later ids of the same channel sort before earlier ones
			a, b := message.NewID(ssid), message.NewID(ssid)
			if bytes.Compare(b, a) >= 0 {
				rec.Violation(ci, "id-order", fmt.Sprintf("an id created later does not sort before the earlier one: %x then %x", []byte(a), []byte(b)), nil)
			}
		case 3: // split
			k := []int{0, 1, 2, 5, 30, 200}[r.Intn(6)]
			f := make(message.Frame, 0, k)
			total := 0
			sizes := make([]int, 0, k)
			for i := 0; i < k; i++ {
				m := randMsg(r, false)
				f = append(f, m)
				sz := len(m.Payload) + len(m.ID) + len(m.Channel) + 20
				sizes = append(sizes, sz)
				total += sz
			}
			bound := 1 + r.Intn(total+200)
			if r.Chance(20) && k > 0 {
				bound = sizes[0] + r.Intn(3) - 1 // around the first message's size
				if bound < 1 {
					bound = 1
				}
			}
			head, tail := f.Split(bound)
			rec.Case(vk.Hash("split", k, bound, total), k >= 2 && bound < total)
			okk := len(head)+len(tail) == len(f)
			for i := 0; okk && i < len(head); i++ {
				okk = msgEq(&head[i], &f[i])
			}
			for i := 0; okk && i < len(tail); i++ {
				okk = msgEq(&tail[i], &f[len(head)+i])
			}
			if !okk {
				rec.Violation(ci, "split-drops-or-reorders", fmt.Sprintf("frame of %d split at %d: head %d + tail %d", k, bound, len(head), len(tail)), nil)
				continue
			}
			hs := 0
			for i := range head {
				hs += sizes[i]
			}
			if hs >= bound && len(head) > 0 {
				rec.Violation(ci, "split-exceeds-bound", fmt.Sprintf("head size %d >= bound %d", hs, bound), nil)
			}
			if len(head) == 0 && k > 0 && sizes[0] < bound {
				rec.Violation(ci, "split-empty-head", fmt.Sprintf("empty head although the first message (%d) is below the bound %d", sizes[0], bound), nil)
			}
			if len(head) == 0 && k > 0 && sizes[0] >= bound {
				rec.Inc("split_first_message_at_or_above_bound") // held-with-note: nothing is dropped by Split
			}
			// the head is maximal: the next message would reach the bound
			if len(tail) > 0 && len(head) > 0 && hs+sizes[len(head)] < bound {
				rec.Violation(ci, "split-head-not-maximal", fmt.Sprintf("head %d + next %d < bound %d", hs, sizes[len(head)], bound), nil)
			}
		}
	}
}

// ---- concurrent ids and the peer send queue, under -race -------------------------------------

type recSender struct {
	mu     sync.Mutex
	frames [][]byte
	hook   func()
	calls, failEvery int
}

func (s *recSender) GossipUnicast(dst mesh.PeerName, msg []byte) error {
	if s.hook != nil {
		s.hook()
	}
	s.mu.Lock()
	s.frames = append(s.frames, append([]byte(nil), msg...))
	s.calls++
	fail := s.failEvery > 0 && s.calls%s.failEvery == 0
	s.mu.Unlock()
	if fail {
		// the transport took the frame (it is recorded) but reports an error, as mesh does when the route has just gone:
		// what was handed over stays handed over, and everything else must still be handed over exactly once
		return errors.New("unable to find connection to relay peer")
	}
	return nil
}
func (s *recSender) GossipBroadcast(update mesh.GossipData)       {}
func (s *recSender) GossipNeighbourSubset(update mesh.GossipData) {}

func TestC19Conc(t *testing.T) {
	rec := vk.New("C19", "conc")
	defer rec.Finish(t)
	rec.Rule("case = (ids) 16 goroutines creating ids for a few ssids concurrently: uniqueness by set, order by an atomic ticket drawn before/after each call (created-after => sorts before, same ssid); " +
		"(peer) a real cluster.Peer over a recording sender with its ticker cancelled, 2-16 sender goroutines and exactly one flusher goroutine calling the queue processor at seeded instants; the transport reports an error for every n-th hand-over in a third of the cases, and in a sixth the payloads are a megabyte each so that one flush is split at the 10 MB bound; after joining and one final flush the recorder must hold, per sender goroutine, exactly its messages in order, once each; (encode) 8-24 goroutines round-tripping their own 100-400-message frames through the shared encoder pool at the same time; " +
		"non-trivial = every case; distinct = hash of (kind, parameters, frames seen)")
	n := vk.N(20, 60)
	for ci := 0; ci < n; ci++ {
		if !vk.Mine(ci) {
			continue
		}
		r := vk.NewRand(vk.Seed(), "C19conc", ci)
		switch ci % 4 {
		case 0:
			c19IDs(rec, ci, r)
		case 3:
			c19EncodeConc(rec, ci, r)
		default:
			c19Peer(rec, ci, r)
		}
	}
}

func c19IDs(rec *vk.Rec, ci int, r *vk.Rand) {
	const G = 16
	per := vk.N(6500, 50000) // 16 goroutines x 6500 > 2^16 ids per case
	ssids := []message.Ssid{{1, 2, 3}, {1, 2, 3}, {9, 8}, {1, 2, 3}}
	type idt struct {
		id     message.ID
		before int64
		after  int64
		s      int
	}
	all := make([][]idt, G)
	var ticket int64
	var wg sync.WaitGroup
	for g := 0; g < G; g++ {
		wg.Add(1)
		go func(g int) {
			defer wg.Done()
			l := make([]idt, 0, per)
			for i := 0; i < per; i++ {
				s := (g + i) % len(ssids)
				b := atomic.AddInt64(&ticket, 1)
				id := message.NewID(ssids[s])
				a := atomic.AddInt64(&ticket, 1)
				l = append(l, idt{id, b, a, s})
			}
			all[g] = l
		}(g)
	}
	wg.Wait()
	seen := map[string]bool{}
	var flat []idt
	for _, l := range all {
		for i, x := range l {
			if seen[string(x.id)] {
				rec.Violation(ci, "id-not-unique", fmt.Sprintf("two equal ids %x", []byte(x.id)), nil)
				return
			}
			seen[string(x.id)] = true
			if i > 0 && bytes.Compare(x.id[4:12], l[i-1].id[4:12]) >= 0 {
				rec.Violation(ci, "id-order", fmt.Sprintf("goroutine's consecutive ids not strictly decreasing in (time,seq): %x then %x", []byte(l[i-1].id[4:12]), []byte(x.id[4:12])), nil)
				return
			}
			flat = append(flat, x)
		}
	}
	// global created-after relation per ssid: if a.after < b.before then b sorts before a.
	// Sweep in ticket order keeping, per ssid, the smallest id among calls that have returned.
	byBefore := append([]idt(nil), flat...)
	sort.Slice(byBefore, func(i, j int) bool { return byBefore[i].before < byBefore[j].before })
	byAfter := append([]idt(nil), flat...)
	sort.Slice(byAfter, func(i, j int) bool { return byAfter[i].after < byAfter[j].after })
	smallest := map[string]message.ID{}
	checked, ai := 0, 0
	for _, b := range byBefore {
		for ai < len(byAfter) && byAfter[ai].after < b.before {
			k := string(byAfter[ai].id[16:])
			if cur, ok := smallest[k]; !ok || bytes.Compare(byAfter[ai].id, cur) < 0 {
				smallest[k] = byAfter[ai].id
			}
			ai++
		}
		if cur, ok := smallest[string(b.id[16:])]; ok {
			checked++
			if bytes.Compare(b.id, cur) >= 0 {
				rec.Violation(ci, "id-order", fmt.Sprintf("an id created after another one had been returned does not sort before it: %x (ticket %d) vs %x", []byte(b.id[:12]), b.before, []byte(cur[:12])), nil)
				return
			}
		}
	}
	rec.Add("ids_created", int64(len(flat)))
	rec.Add("created_after_pairs_checked", int64(checked))
	rec.Case(vk.Hash("ids", ci, len(flat)), true)
	if rec.WantSample() {
		rec.Sample(map[string]interface{}{"kind": "ids", "goroutines": G, "ids": len(flat), "created_after_pairs_checked": checked})
	}
}

func c19Peer(rec *vk.Rec, ci int, r *vk.Rand) {
	snd := &recSender{}
	var hctr uint32
	every := uint32(r.Range(2, 9))
	snd.hook = func() {
		if atomic.AddUint32(&hctr, 1)%every == 0 {
			time.Sleep(time.Duration(r.Intn(200)) * time.Microsecond)
		}
	}
	if ci%3 == 1 {
		snd.failEvery = r.Range(1, 4) // every n-th hand-over reports an error
	}
	p := cluster.VerifNewPeer(snd, mesh.PeerName(42))
	G := r.Range(2, 16)
	per := vk.N(300, 3000)
	// every sixth case: a few senders with megabyte payloads, so that one flush exceeds the 10 MB bound of a frame and is
	// split into several hand-overs (with the erroring transport of the neighbouring cases in half of them)
	bigBody := 0
	if ci%6 == 4 {
		G, per, bigBody = r.Range(2, 4), 14, 1<<20
		if r.Bool() {
			snd.failEvery = r.Range(1, 3)
		}
	}
	var wg sync.WaitGroup
	stop := make(chan struct{})
	flushed := make(chan struct{})
	fr := vk.NewRand(vk.Seed(), "C19flusher", ci)
	go func() { // the one flusher
		defer close(flushed)
		for {
			select {
			case <-stop:
				return
			default:
			}
			p.VerifTouch() // the statement is about an ACTIVE peer: keep the 30 s activity window open however long the run takes
			p.VerifFlush()
			if fr.Chance(30) {
				time.Sleep(time.Duration(fr.Intn(300)) * time.Microsecond)
			}
		}
	}()
	for g := 0; g < G; g++ {
		gr := vk.NewRand(vk.Seed(), fmt.Sprintf("C19peer-%d", g), ci)
		wg.Add(1)
		go func(g int, gr *vk.Rand) {
			defer wg.Done()
			for i := 0; i < per; i++ {
				fill := gr.Intn(30)
				if bigBody > 0 {
					fill = bigBody
				}
				m := &message.Message{ID: message.ID(fmt.Sprintf("g%02d", g)), Channel: []byte("c/"), Payload: []byte(fmt.Sprintf("%d|%d|%s", g, i, string(bytes.Repeat([]byte{'x'}, fill))))}
				p.VerifTouch()
				p.Send(m)
				if gr.Chance(3) {
					time.Sleep(time.Duration(gr.Intn(100)) * time.Microsecond)
				}
			}
		}(g, gr)
	}
	wg.Wait()
	close(stop)
	<-flushed
	p.VerifFlush() // end barrier: senders joined, the flusher runs once more
	next := make([]int, G)
	total := 0
	for fi, fb := range snd.frames {
		f, err := message.DecodeFrame(fb)
		if err != nil {
			rec.Violation(ci, "peer-frame-undecodable", fmt.Sprintf("frame %d: %v", fi, err), nil)
			return
		}
		for _, m := range f {
			var g, i int
			if _, err := fmt.Sscanf(string(m.Payload), "%d|%d|", &g, &i); err != nil || g < 0 || g >= G {
				rec.Violation(ci, "peer-message-corrupted", fmt.Sprintf("payload %.40q", m.Payload), nil)
				return
			}
			if i != next[g] {
				kind := "reordered-or-lost"
				if i < next[g] {
					kind = "duplicated"
				}
				rec.Violation(ci, "peer-forwarding/"+kind, fmt.Sprintf("sender goroutine %d: expected message %d next, transport received %d (frame %d of %d)", g, next[g], i, fi, len(snd.frames)), nil)
				return
			}
			next[g]++
			total++
		}
	}
	for g := range next {
		if next[g] != per {
			rec.Violation(ci, "peer-forwarding/lost", fmt.Sprintf("sender goroutine %d: %d of %d messages reached the transport", g, next[g], per), nil)
			return
		}
	}
	rec.Add("peer_messages_forwarded", int64(total))
	rec.Add("peer_frames", int64(len(snd.frames)))
	rec.Case(vk.Hash("peer", G, per, len(snd.frames)), true)
	if rec.WantSample() {
		rec.Sample(map[string]interface{}{"kind": "peer", "senders": G, "messages_each": per, "frames": len(snd.frames)})
	}
}

// c19EncodeConc: many goroutines encode and decode their own large frames and messages at the same time
// (the encoders come from one shared pool).
func c19EncodeConc(rec *vk.Rec, ci int, r *vk.Rand) {
	G := r.Range(8, 24)
	rounds := vk.N(6, 40)
	var wg sync.WaitGroup
	var mu sync.Mutex
	bad := ""
	for g := 0; g < G; g++ {
		gr := vk.NewRand(vk.Seed(), fmt.Sprintf("C19enc-%d", g), ci)
		wg.Add(1)
		go func(g int, gr *vk.Rand) {
			defer wg.Done()
			k := gr.Range(100, 400)
			f := make(message.Frame, 0, k)
			for i := 0; i < k; i++ {
				f = append(f, message.Message{ID: message.ID(fmt.Sprintf("g%02d-%06d-0123456789", g, i)), Channel: []byte(fmt.Sprintf("c/%d/", g)), Payload: bytes.Repeat([]byte{byte('a' + g%26)}, gr.Range(500, 2500)), TTL: uint32(i)})
			}
			for rd := 0; rd < rounds; rd++ {
				back, err := message.DecodeFrame(f.Encode())
				okk := err == nil && len(back) == len(f)
				for i := 0; okk && i < len(f); i++ {
					okk = msgEq(&f[i], &back[i])
				}
				if okk {
					m := f[gr.Intn(len(f))]
					bm, err := message.DecodeMessage(m.Encode())
					okk = err == nil && msgEq(&m, &bm)
				}
				if !okk {
					mu.Lock()
					if bad == "" {
						bad = fmt.Sprintf("goroutine %d round %d: frame of %d messages did not survive Encode/Decode while %d other goroutines were encoding (err=%v, decoded %d)", g, rd, len(f), G-1, err, len(back))
					}
					mu.Unlock()
					return
				}
			}
		}(g, gr)
	}
	wg.Wait()
	rec.Add("concurrent_frame_roundtrips", int64(G*rounds))
	rec.Case(vk.Hash("encconc", G, rounds, ci), true)
	if bad != "" {
		rec.Violation(ci, "frame-roundtrip-concurrent", bad, nil)
	}
	if rec.WantSample() {
		rec.Sample(map[string]interface{}{"kind": "concurrent-encode", "goroutines": G, "rounds": rounds})
	}
}
