//go:build verif

// C20 part "conc" — one cipher instance serves every connection of a broker: many goroutines encrypt and decrypt with the
// SAME instance at the same time. Each goroutine round-trips its own keys through the shared instance and cross-checks
// every string with a private instance of the same licence (which nobody else touches). Race build.
package codeclab

import (
	"bytes"
	"fmt"
	"sync"
	"testing"

	"github.com/emitter-io/emitter/internal/security"
	"github.com/emitter-io/emitter/verif/lab/vk"
)

func TestC20Conc(t *testing.T) {
	rec := vk.New("C20", "conc")
	defer rec.Finish(t)
	rec.Rule("case = (licence version, seed): 8-16 goroutines each push 400 (thorough 6000) keys (edge salts 0/1/0xffff and random, all field values) through one shared cipher instance - EncryptKey then DecryptKey - at the same time; every string must be 32 URL-safe characters, decrypt to its own key on the shared instance and on a private instance of the same licence, and encrypt to the same string there; " +
		"non-trivial = every case; distinct = (version, case)")
	n := vk.N(9, 240)
	for ci := 0; ci < n; ci++ {
		if !vk.Mine(ci) {
			continue
		}
		v := 1 + ci%3
		lic := newLic(v)
		shared, err := lic.Cipher()
		if err != nil {
			rec.Inconclusive(err.Error())
			continue
		}
		r := vk.NewRand(vk.Seed(), "C20conc", ci)
		ng := r.Range(8, 16)
		per := vk.N(400, 6000)
		var wg sync.WaitGroup
		var mu sync.Mutex
		bad := ""
		for g := 0; g < ng; g++ {
			gr := vk.NewRand(vk.Seed(), fmt.Sprintf("C20conc-g%d", g), ci)
			back, _, _ := parse(lic.String())
			wg.Add(1)
			go func(g int, gr *vk.Rand) {
				defer wg.Done()
				private, err := back.Cipher()
				if err != nil {
					return
				}
				for i := 0; i < per; i++ {
					k := security.Key(gr.Bytes(24))
					switch i % 5 {
					case 0:
						k.SetSalt([]uint16{0, 1, 0xffff, 0x0100}[(i/5)%4])
					case 1:
						k.SetSalt(uint16(g)) // several goroutines share few salts
					}
					why := ""
					s, err := shared.EncryptKey(k)
					if err != nil || len(s) != 32 {
						why = fmt.Sprintf("EncryptKey: %v (%q)", err, s)
					} else if d, err, pan := decrypt(shared, s); err != nil || pan != "" || !bytes.Equal(d, k) {
						why = fmt.Sprintf("the shared instance decrypts %s to %x (err %v %s), encrypted was %x", s, []byte(d), err, pan, []byte(k))
					} else if d, err, pan := decrypt(private, s); err != nil || pan != "" || !bytes.Equal(d, k) {
						why = fmt.Sprintf("a private instance of the same licence decrypts %s to %x (err %v %s), encrypted was %x", s, []byte(d), err, pan, []byte(k))
					}
					if why != "" {
						mu.Lock()
						if bad == "" {
							bad = fmt.Sprintf("licence v%d, %d goroutines on one cipher instance, goroutine %d key %d (salt %#04x): %s", v, ng, g, i, k.Salt(), why)
						}
						mu.Unlock()
						return
					}
				}
			}(g, gr)
		}
		wg.Wait()
		rec.Add("keys_through_shared_instance", int64(ng*per))
		rec.Case(vk.Hash("c20conc", v, ci), true)
		if bad != "" {
			rec.Violation(ci, fmt.Sprintf("concurrent-key-roundtrip/v%d", v), bad, map[string]interface{}{"licence_version": v, "goroutines": ng})
		}
		if rec.WantSample() {
			rec.Sample(map[string]interface{}{"case": ci, "licence_version": v, "goroutines": ng, "keys_each": per})
		}
	}
}
