//go:build verif

// C16 part "conc" — every packet the broker emits decodes to the same field values ALSO when many connections
// encode at the same time (the encoders share pooled buffers). 8-16 goroutines each encode their own stream of
// broker-emitted packet types (PUBLISH of all sizes, SUBACK, PUBACK, UNSUBACK, CONNACK, PINGRESP) into their own
// writer; the writer takes its time (it copies the slice it is given in pieces with yields in between, as a
// socket under load does - the slice is the caller's until Write returns); every goroutine's output must be
// exactly the concatenation of its own packets as paho decodes them. Race build.
package codeclab

import (
	"bytes"
	"fmt"
	"runtime"
	"sync"
	"testing"

	"github.com/eclipse/paho.mqtt.golang/packets"
	"github.com/emitter-io/emitter/internal/network/mqtt"
	"github.com/emitter-io/emitter/verif/lab/vk"
)

// slowWriter copies what it is given piecewise, yielding in between.
type slowWriter struct {
	buf   bytes.Buffer
	r     *vk.Rand
	calls int
}

func (w *slowWriter) Write(p []byte) (int, error) {
	w.calls++
	rest := p
	for len(rest) > 0 {
		k := 1 + w.r.Intn(len(rest))
		if len(rest) > 64 && w.r.Chance(50) {
			k = len(rest) / 2
		}
		w.buf.Write(rest[:k])
		rest = rest[k:]
		if len(rest) > 0 {
			runtime.Gosched()
		}
	}
	return len(p), nil
}

func TestC16Conc(t *testing.T) {
	rec := vk.New("C16", "conc")
	defer rec.Finish(t)
	rec.Rule("case = 8-16 goroutines each encoding 300 (thorough 1200) packets of the types the broker emits (PUBLISH with payloads 0..40 KB and topics of their own, SUBACK, PUBACK, UNSUBACK, CONNACK, PINGRESP) with EncodeTo into their own slow writer at the same time; each goroutine's output is split and decoded by paho and must be exactly its own packets, in order, with their own field values; " +
		"non-trivial = every case (>=8 concurrent encoders); distinct = hash of (goroutines, packet plan)")
	n := vk.N(12, 96)
	for ci := 0; ci < n; ci++ {
		if !vk.Mine(ci) {
			continue
		}
		r := vk.NewRand(vk.Seed(), "C16conc", ci)
		ng := r.Range(8, 16)
		per := vk.N(300, 1200)
		type result struct {
			bad string
		}
		res := make([]result, ng)
		var wg sync.WaitGroup
		start := make(chan struct{})
		for g := 0; g < ng; g++ {
			gr := vk.NewRand(vk.Seed(), fmt.Sprintf("C16conc-g%d", g), ci)
			wg.Add(1)
			go func(g int, gr *vk.Rand) {
				defer wg.Done()
				defer func() {
					if x := recover(); x != nil {
						res[g].bad = fmt.Sprintf("panic in EncodeTo: %v", x)
					}
				}()
				w := &slowWriter{r: gr}
				type exp struct {
					kind    byte
					topic   string
					payload []byte
					id      uint16
					qos     []byte
				}
				var want []exp
				<-start
				for i := 0; i < per; i++ {
					var m mqtt.Message
					e := exp{id: uint16(1 + (g*7919+i)%65000)}
					switch x := gr.Intn(10); {
					case x < 6:
						size := gr.Intn(200)
						switch gr.Intn(12) {
						case 0:
							size = gr.Range(1000, 5000)
						case 1:
							size = gr.Range(16000, 40000)
						case 2:
							size = 0
						}
						e.kind, e.topic = 3, fmt.Sprintf("g%d/t%d/", g, i%13)
						e.payload = bytes.Repeat([]byte{byte('A' + g%26)}, size)
						copy(e.payload, fmt.Sprintf("g%d-%d|", g, i))
						qos := uint8(gr.Intn(2))
						m = &mqtt.Publish{Header: mqtt.Header{QOS: qos}, Topic: []byte(e.topic), MessageID: e.id, Payload: e.payload}
						if qos == 0 {
							e.id = 0
						}
					case x < 7:
						e.kind = 9
						for k := gr.Range(1, 5); k > 0; k-- {
							e.qos = append(e.qos, []byte{0, 1, 2, 0x80}[gr.Intn(4)])
						}
						m = &mqtt.Suback{MessageID: e.id, Qos: e.qos}
					case x < 8:
						e.kind = 4
						m = &mqtt.Puback{MessageID: e.id}
					case x < 9:
						e.kind = 11
						m = &mqtt.Unsuback{MessageID: e.id}
					default:
						if gr.Bool() {
							e.kind = 2
							m = &mqtt.Connack{ReturnCode: uint8(gr.Intn(6))}
						} else {
							e.kind = 13
							m = &mqtt.Pingresp{}
						}
					}
					if _, err := m.EncodeTo(w); err != nil {
						res[g].bad = fmt.Sprintf("EncodeTo error at packet %d: %v", i, err)
						return
					}
					want = append(want, e)
				}
				// decode own stream with paho
				rd := bytes.NewReader(w.buf.Bytes())
				for i, e := range want {
					cp, err := packets.ReadPacket(rd)
					if err != nil {
						res[g].bad = fmt.Sprintf("packet %d of goroutine %d (type %d): paho rejects the stream: %v", i, g, e.kind, err)
						return
					}
					ok := true
					switch p := cp.(type) {
					case *packets.PublishPacket:
						ok = e.kind == 3 && p.TopicName == e.topic && bytes.Equal(p.Payload, e.payload) && p.MessageID == e.id
						if !ok {
							res[g].bad = fmt.Sprintf("packet %d of goroutine %d: expected PUBLISH topic %q id %d payload %.24q (%d bytes), paho decoded topic %q id %d payload %.24q (%d bytes)", i, g, e.topic, e.id, e.payload, len(e.payload), p.TopicName, p.MessageID, p.Payload, len(p.Payload))
						}
					case *packets.SubackPacket:
						ok = e.kind == 9 && p.MessageID == e.id && bytes.Equal(p.ReturnCodes, e.qos)
					case *packets.PubackPacket:
						ok = e.kind == 4 && p.MessageID == e.id
					case *packets.UnsubackPacket:
						ok = e.kind == 11 && p.MessageID == e.id
					case *packets.ConnackPacket:
						ok = e.kind == 2
					case *packets.PingrespPacket:
						ok = e.kind == 13
					default:
						ok = false
					}
					if !ok {
						if res[g].bad == "" {
							res[g].bad = fmt.Sprintf("packet %d of goroutine %d: expected type %d id %d, paho decoded %T %+v", i, g, e.kind, e.id, cp, cp)
						}
						return
					}
				}
				if rd.Len() != 0 {
					res[g].bad = fmt.Sprintf("goroutine %d: %d bytes left over after its %d packets", g, rd.Len(), len(want))
				}
			}(g, gr)
		}
		close(start)
		wg.Wait()
		rec.Add("packets_encoded_concurrently", int64(ng*per))
		rec.Case(vk.Hash("conc", ci, ng, per), true)
		for g := range res {
			if res[g].bad != "" {
				rec.Violation(ci, "concurrent-encode-disagrees", fmt.Sprintf("%d goroutines encoding at the same time: %s", ng, res[g].bad), map[string]interface{}{"goroutines": ng, "packets_per_goroutine": per})
				break
			}
		}
		if rec.WantSample() {
			rec.Sample(map[string]interface{}{"case": ci, "goroutines": ng, "packets_per_goroutine": per})
		}
	}
}
