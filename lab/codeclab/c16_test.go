//go:build verif

// C16 — the MQTT codec agrees with MQTT 3.1.1 for every packet it handles (DESIGN §5 C16).
// Differential against paho's packets codec, boundary enumeration x seeded fill.
package codeclab

import (
	"bufio"
	"bytes"
	"fmt"
	"reflect"
	"testing"

	"github.com/eclipse/paho.mqtt.golang/packets"
	"github.com/emitter-io/emitter/internal/network/mqtt"
	"github.com/emitter-io/emitter/verif/lab/vk"
)

const maxSize = 65536

func fill(r *vk.Rand, n int) []byte {
	b := make([]byte, n)
	for i := range b {
		b[i] = byte('a' + r.Intn(26))
	}
	return b
}

// encode runs EncodeTo and converts a panic into an error string.
func encode(m mqtt.Message) (out []byte, perr string) {
	defer func() {
		if r := recover(); r != nil {
			perr = fmt.Sprintf("panic: %v", r)
		}
	}()
	var b bytes.Buffer
	if _, err := m.EncodeTo(&b); err != nil {
		return nil, "error: " + err.Error()
	}
	return b.Bytes(), ""
}

func decode(b []byte) (m mqtt.Message, perr string) {
	defer func() {
		if r := recover(); r != nil {
			perr = fmt.Sprintf("panic: %v", r)
		}
	}()
	rd := bufio.NewReaderSize(bytes.NewReader(b), 65536)
	m, err := mqtt.DecodePacket(rd, maxSize)
	if err != nil {
		return nil, "error: " + err.Error()
	}
	if rd.Buffered() != 0 {
		return m, fmt.Sprintf("decoder left %d bytes unread", rd.Buffered())
	}
	// decoded packets are kept while later packets are decoded: a decoder that hands out memory it reuses for the next packet
	// passes an immediate comparison; the snapshot taken now must still describe the value after the next decodes
	for _, h := range heldPackets {
		if now := fmt.Sprintf("%#v", h.m); now != h.snap {
			heldChanged = fmt.Sprintf("a packet decoded earlier (%T) changed after later packets were decoded: it was %.200s, it is now %.200s", h.m, h.snap, now)
		}
	}
	if len(b) < 4096 {
		heldPackets = append(heldPackets, heldPacket{m, fmt.Sprintf("%#v", m)})
		if len(heldPackets) > 5 {
			heldPackets = heldPackets[1:]
		}
	}
	return m, ""
}

type heldPacket struct {
	m    mqtt.Message
	snap string
}

var heldPackets []heldPacket
var heldChanged string

func pahoDecode(b []byte) (packets.ControlPacket, string) {
	rd := bytes.NewReader(b)
	cp, err := packets.ReadPacket(rd)
	if err != nil {
		return nil, "paho rejects: " + err.Error()
	}
	if rd.Len() != 0 {
		return cp, fmt.Sprintf("paho left %d bytes unread", rd.Len())
	}
	return cp, ""
}

func pahoEncode(cp packets.ControlPacket) []byte {
	var b bytes.Buffer
	cp.Write(&b)
	return b.Bytes()
}

func eqb(a, b []byte) bool { return bytes.Equal(a, b) }

// bodyLens: remaining-length boundaries expressed as the total body length wanted.
var bodyLens = []int{2, 3, 10, 126, 127, 128, 129, 16382, 16383, 16384, 16385, 65529, 65530, 65531, 65533, 65535, 65536}

func TestC16(t *testing.T) {
	rec := vk.New("C16", "codec")
	defer rec.Finish(t)
	defer func() {
		if heldChanged != "" {
			rec.Violation(0, "decoded-packet-changed-later", heldChanged, nil)
		}
	}()
	rec.Rule("case = one packet value: (a) every type the broker emits (CONNACK, PUBLISH, PUBACK, SUBACK, UNSUBACK, PINGRESP) encoded with EncodeTo and decoded by paho; (b) every one of the 14 types written by paho and decoded by mqtt.DecodePacket; (c) EncodeTo then DecodePacket for all 14 types; " +
		"enumerated: all header flag combinations, QoS 0-2 incl. will QoS, all will/username/password flag combinations, remaining lengths around 0, 127/128, 16383/16384 and the 64 KiB limit, empty strings and payloads, 0..N tuples; x seeded random fill; " +
		"non-trivial = every case; distinct = (direction, type, field shape)")
	r := vk.NewRand(vk.Seed(), "C16", 0)
	caseNo := 0
	mine := func() bool { caseNo++; return vk.Mine(caseNo) }
	fail := func(matcher, desc string, w map[string]interface{}) {
		rec.Violation(caseNo, matcher, desc, w)
	}
	reps := vk.N(3, 24)

	// ---------- PUBLISH in all three directions
	for rep := 0; rep < reps; rep++ {
		for _, bl := range bodyLens {
			for qos := 0; qos <= 2; qos++ {
				for flags := 0; flags < 4; flags++ { // dup, retain
					for _, tl := range []int{0, 1, 5, 130} {
						if !mine() {
							continue
						}
						over := 2 + tl
						if qos > 0 {
							over += 2
						}
						pl := bl - over
						if pl < 0 {
							continue
						}
						topic, payload := fill(r, tl), fill(r, pl)
						dup, retain := flags&1 != 0, flags&2 != 0
						id := uint16(0)
						if qos > 0 {
							id = uint16(1 + r.Intn(65535))
						}
						shape := fmt.Sprintf("publish body=%d qos=%d dup=%v retain=%v topic=%d payload=%d", bl, qos, dup, retain, tl, pl)
						w := map[string]interface{}{"packet": shape}
						ev := &mqtt.Publish{Header: mqtt.Header{DUP: dup, Retain: retain, QOS: uint8(qos)}, Topic: topic, MessageID: id, Payload: payload}
						// (a)+(c)
						enc, perr := encode(ev)
						rec.Case(vk.Hash("pub", bl, qos, flags, tl, rep), true)
						if perr != "" {
							fail(fmt.Sprintf("publish-encode-%s/body-%s", kindOf(perr), sizeClass(bl)), shape+": EncodeTo "+perr, w)
						} else {
							cp, e := pahoDecode(enc)
							if e != "" {
								fail("publish-encode-disagrees", shape+": "+e, w)
							} else if pp, ok := cp.(*packets.PublishPacket); !ok || pp.TopicName != string(topic) || !eqb(pp.Payload, payload) || pp.Qos != byte(qos) || pp.Dup != dup || pp.Retain != retain || (qos > 0 && pp.MessageID != id) {
								fail("publish-encode-disagrees", fmt.Sprintf("%s: paho decoded %v", shape, cp), w)
							}
							back, e := decode(enc)
							if e != "" {
								fail("publish-roundtrip", shape+": DecodePacket "+e, w)
							} else if bp, ok := back.(*mqtt.Publish); !ok || !eqb(bp.Topic, topic) || !eqb(bp.Payload, payload) || bp.Header != ev.Header || bp.MessageID != id {
								fail("publish-roundtrip", shape+": decoded value differs", w)
							}
						}
						// (b)
						pp := packets.NewControlPacket(packets.Publish).(*packets.PublishPacket)
						pp.TopicName, pp.Payload, pp.Qos, pp.Dup, pp.Retain, pp.MessageID = string(topic), payload, byte(qos), dup, retain, id
						got, e := decode(pahoEncode(pp))
						if e != "" {
							fail("publish-decode-rejects-wellformed", shape+": DecodePacket "+e, w)
						} else if bp, ok := got.(*mqtt.Publish); !ok || !eqb(bp.Topic, topic) || !eqb(bp.Payload, payload) || bp.QOS != uint8(qos) || bp.DUP != dup || bp.Retain != retain || bp.MessageID != id {
							fail("publish-decode-disagrees", shape+": decoded value differs from what paho wrote", w)
						}
						if rec.WantSample() {
							rec.Sample(w)
						}
					}
				}
			}
		}
	}

	// ---------- CONNECT: every flag combination
	for rep := 0; rep < reps*2; rep++ {
		for flags := 0; flags < 128; flags++ {
			if !mine() {
				continue
			}
			user, pass, wret, wflag, clean := flags&1 != 0, flags&2 != 0, flags&4 != 0, flags&8 != 0, flags&16 != 0
			wqos := uint8(flags >> 5) // 0..3
			if wqos == 3 {
				continue
			}
			if !wflag && (wqos != 0 || wret) {
				continue // MQTT 3.1.1: will qos / retain must be 0 without the will flag
			}
			lens := []int{0, 1, 23, 127, 128, 300}
			cid := fill(r, lens[r.Intn(len(lens))])
			ka := uint16(r.Intn(65536))
			c := &mqtt.Connect{ProtoName: []byte("MQTT"), Version: 4, UsernameFlag: user, PasswordFlag: pass, WillRetainFlag: wret, WillQOS: wqos, WillFlag: wflag, CleanSeshFlag: clean, KeepAlive: ka, ClientID: cid}
			if wflag {
				c.WillTopic, c.WillMessage = fill(r, lens[r.Intn(len(lens))]), fill(r, lens[r.Intn(len(lens))])
			}
			if user {
				c.Username = fill(r, lens[r.Intn(len(lens))])
			}
			if pass {
				c.Password = fill(r, lens[r.Intn(len(lens))])
			}
			shape := fmt.Sprintf("connect user=%v pass=%v will=%v willqos=%d willretain=%v clean=%v", user, pass, wflag, wqos, wret, clean)
			w := map[string]interface{}{"packet": shape}
			rec.Case(vk.Hash("connect", flags, rep), true)
			// (b): paho writes, emitter decodes
			pc := packets.NewControlPacket(packets.Connect).(*packets.ConnectPacket)
			pc.ProtocolName, pc.ProtocolVersion, pc.CleanSession, pc.WillFlag, pc.WillQos, pc.WillRetain = "MQTT", 4, clean, wflag, wqos, wret
			pc.UsernameFlag, pc.PasswordFlag, pc.Keepalive, pc.ClientIdentifier = user, pass, ka, string(cid)
			pc.WillTopic, pc.WillMessage, pc.Username, pc.Password = string(c.WillTopic), c.WillMessage, string(c.Username), c.Password
			got, e := decode(pahoEncode(pc))
			if e != "" {
				fail("connect-decode-rejects-wellformed", shape+": "+e, w)
			} else if gc, ok := got.(*mqtt.Connect); !ok {
				fail("connect-decode-disagrees", shape+": wrong type", w)
			} else {
				if gc.WillQOS != wqos {
					fail("connect-decode-will-qos", fmt.Sprintf("%s: decoded will QoS %d", shape, gc.WillQOS), w)
				}
				if gc.UsernameFlag != user || gc.PasswordFlag != pass || gc.WillRetainFlag != wret || gc.WillFlag != wflag || gc.CleanSeshFlag != clean || gc.KeepAlive != ka ||
					!eqb(gc.ClientID, cid) || !eqb(gc.WillTopic, c.WillTopic) || !eqb(gc.WillMessage, c.WillMessage) || !eqb(gc.Username, c.Username) || !eqb(gc.Password, c.Password) || string(gc.ProtoName) != "MQTT" || gc.Version != 4 {
					fail("connect-decode-disagrees", shape+": a field other than will QoS differs", w)
				}
			}
			// (c): emitter encodes, emitter decodes; and paho reads emitter's bytes
			enc, perr := encode(c)
			if perr != "" {
				fail("connect-encode-"+kindOf(perr), shape+": "+perr, w)
				continue
			}
			if cp, e := pahoDecode(enc); e != "" {
				fail("connect-encode-disagrees", shape+": "+e, w)
			} else if pp := cp.(*packets.ConnectPacket); pp.WillQos != wqos || pp.WillFlag != wflag || pp.WillRetain != wret || pp.UsernameFlag != user || pp.PasswordFlag != pass || pp.CleanSession != clean || pp.Keepalive != ka || pp.ClientIdentifier != string(cid) {
				fail("connect-encode-disagrees", shape+": paho decodes other flags", w)
			}
			back, e := decode(enc)
			if e != "" {
				fail("connect-roundtrip", shape+": "+e, w)
			} else if bc := back.(*mqtt.Connect); bc.WillQOS != wqos {
				fail("connect-decode-will-qos", fmt.Sprintf("%s: round trip will QoS %d", shape, bc.WillQOS), w)
			} else if !eqb(bc.ClientID, cid) || bc.KeepAlive != ka || bc.WillFlag != wflag || !eqb(bc.WillTopic, c.WillTopic) || !eqb(bc.Username, c.Username) || !eqb(bc.Password, c.Password) {
				fail("connect-roundtrip", shape+": decoded value differs", w)
			}
		}
	}

	// ---------- SUBSCRIBE / UNSUBSCRIBE / SUBACK with 0..N tuples
	for rep := 0; rep < reps*3; rep++ {
		nts := []int{0, 1, 2, 5, 40, 400}
		if rep == 0 { // once: every tuple count up to 140 and around 255/256 (size classes of small buffers)
			nts = nil
			for k := 0; k <= 140; k++ {
				nts = append(nts, k)
			}
			nts = append(nts, 254, 255, 256, 257, 400)
		}
		for _, nt := range nts {
			for _, tl := range []int{0, 1, 30, 127, 128, 1000} {
				if rep == 0 && nt > 5 && tl != 1 && tl != 30 {
					continue
				}
				if !mine() {
					continue
				}
				if nt*(tl+3) > 65000 {
					continue
				}
				id := uint16(1 + r.Intn(65535))
				var tuples []mqtt.TopicQOSTuple
				var topics []string
				var qoss []byte
				for i := 0; i < nt; i++ {
					tp := fill(r, tl)
					q := uint8(r.Intn(3))
					tuples = append(tuples, mqtt.TopicQOSTuple{Topic: tp, Qos: q})
					topics = append(topics, string(tp))
					qoss = append(qoss, q)
				}
				shape := fmt.Sprintf("subscribe tuples=%d topic=%d", nt, tl)
				w := map[string]interface{}{"packet": shape}
				rec.Case(vk.Hash("sub", nt, tl, rep), true)
				if nt > 0 { // a SUBSCRIBE/UNSUBSCRIBE without topics is malformed in MQTT 3.1.1
					ps := packets.NewControlPacket(packets.Subscribe).(*packets.SubscribePacket)
					ps.MessageID, ps.Topics, ps.Qoss = id, topics, qoss
					got, e := decode(pahoEncode(ps))
					if e != "" {
						fail("subscribe-decode-rejects-wellformed", shape+": "+e, w)
					} else if gs, ok := got.(*mqtt.Subscribe); !ok || gs.MessageID != id || len(gs.Subscriptions) != nt || gs.QOS != 1 {
						fail("subscribe-decode-disagrees", shape, w)
					} else {
						for i := range tuples {
							if !eqb(gs.Subscriptions[i].Topic, tuples[i].Topic) || gs.Subscriptions[i].Qos != tuples[i].Qos {
								fail("subscribe-decode-disagrees", fmt.Sprintf("%s: tuple %d", shape, i), w)
								break
							}
						}
					}
					pu := packets.NewControlPacket(packets.Unsubscribe).(*packets.UnsubscribePacket)
					pu.MessageID, pu.Topics = id, topics
					got, e = decode(pahoEncode(pu))
					if e != "" {
						fail("unsubscribe-decode-rejects-wellformed", shape+": "+e, w)
					} else if gu, ok := got.(*mqtt.Unsubscribe); !ok || gu.MessageID != id || len(gu.Topics) != nt {
						fail("unsubscribe-decode-disagrees", shape, w)
					} else {
						for i := range tuples {
							if !eqb(gu.Topics[i].Topic, tuples[i].Topic) {
								fail("unsubscribe-decode-disagrees", fmt.Sprintf("%s: topic %d", shape, i), w)
								break
							}
						}
					}
				}
				// round trips
				sv := &mqtt.Subscribe{Header: mqtt.Header{QOS: 1}, MessageID: id, Subscriptions: tuples}
				if enc, perr := encode(sv); perr != "" {
					fail("subscribe-encode-"+kindOf(perr), shape+": "+perr, w)
				} else if back, e := decode(enc); e != "" {
					fail("subscribe-roundtrip", shape+": "+e, w)
				} else if bs := back.(*mqtt.Subscribe); bs.MessageID != id || bs.Header != sv.Header || !tuplesEq(bs.Subscriptions, tuples, true) {
					fail("subscribe-roundtrip", shape, w)
				}
				var ut []mqtt.TopicQOSTuple
				for _, tp := range tuples {
					ut = append(ut, mqtt.TopicQOSTuple{Topic: tp.Topic})
				}
				uv := &mqtt.Unsubscribe{Header: mqtt.Header{QOS: 1}, MessageID: id, Topics: ut}
				if enc, perr := encode(uv); perr != "" {
					fail("unsubscribe-encode-"+kindOf(perr), shape+": "+perr, w)
				} else if back, e := decode(enc); e != "" {
					fail("unsubscribe-roundtrip", shape+": "+e, w)
				} else if bu := back.(*mqtt.Unsubscribe); bu.MessageID != id || bu.Header != uv.Header || !tuplesEq(bu.Topics, ut, false) {
					fail("unsubscribe-roundtrip", shape, w)
				}
				// SUBACK: emitted by the broker
				codes := make([]uint8, nt)
				for i := range codes {
					codes[i] = []uint8{0, 1, 2, 0x80}[r.Intn(4)]
				}
				sa := &mqtt.Suback{MessageID: id, Qos: codes}
				if enc, perr := encode(sa); perr != "" {
					fail("suback-encode-"+kindOf(perr), shape+": "+perr, w)
				} else {
					if cp, e := pahoDecode(enc); e != "" {
						fail("suback-encode-disagrees", shape+": "+e, w)
					} else if ps := cp.(*packets.SubackPacket); ps.MessageID != id || !eqb(ps.ReturnCodes, codes) {
						fail("suback-encode-disagrees", shape, w)
					}
					if back, e := decode(enc); e != "" {
						fail("suback-roundtrip", shape+": "+e, w)
					} else if bs := back.(*mqtt.Suback); bs.MessageID != id || !eqb(bs.Qos, codes) {
						fail("suback-roundtrip", shape, w)
					}
				}
				psa := packets.NewControlPacket(packets.Suback).(*packets.SubackPacket)
				psa.MessageID, psa.ReturnCodes = id, codes
				if got, e := decode(pahoEncode(psa)); e != "" {
					fail("suback-decode-rejects-wellformed", shape+": "+e, w)
				} else if gs := got.(*mqtt.Suback); gs.MessageID != id || !eqb(gs.Qos, codes) {
					fail("suback-decode-disagrees", shape, w)
				}
			}
		}
	}

	// ---------- the small packets
	for rep := 0; rep < reps*40; rep++ {
		if !mine() {
			continue
		}
		id := uint16(r.Intn(65536))
		rc := uint8(r.Intn(6))
		w := map[string]interface{}{"packet": fmt.Sprintf("small packets id=%d rc=%d", id, rc)}
		rec.Case(vk.Hash("small", id, rc), true)
		type pair struct {
			name string
			em   mqtt.Message
			ph   packets.ControlPacket
			emit bool
		}
		mk := func(t byte) packets.ControlPacket { return packets.NewControlPacket(t) }
		pa := mk(packets.Puback).(*packets.PubackPacket)
		pa.MessageID = id
		prc := mk(packets.Pubrec).(*packets.PubrecPacket)
		prc.MessageID = id
		prl := mk(packets.Pubrel).(*packets.PubrelPacket)
		prl.MessageID = id
		pcm := mk(packets.Pubcomp).(*packets.PubcompPacket)
		pcm.MessageID = id
		pua := mk(packets.Unsuback).(*packets.UnsubackPacket)
		pua.MessageID = id
		pca := mk(packets.Connack).(*packets.ConnackPacket)
		pca.ReturnCode = rc
		ps := []pair{
			{"puback", &mqtt.Puback{MessageID: id}, pa, true},
			{"pubrec", &mqtt.Pubrec{MessageID: id}, prc, false},
			{"pubrel", &mqtt.Pubrel{MessageID: id, Header: mqtt.Header{QOS: 1}}, prl, false},
			{"pubcomp", &mqtt.Pubcomp{MessageID: id}, pcm, false},
			{"unsuback", &mqtt.Unsuback{MessageID: id}, pua, true},
			{"connack", &mqtt.Connack{ReturnCode: rc}, pca, true},
			{"pingreq", &mqtt.Pingreq{}, mk(packets.Pingreq), false},
			{"pingresp", &mqtt.Pingresp{}, mk(packets.Pingresp), true},
			{"disconnect", &mqtt.Disconnect{}, mk(packets.Disconnect), false},
		}
		for _, p := range ps {
			enc, perr := encode(p.em)
			if perr != "" {
				fail(p.name+"-encode-"+kindOf(perr), perr, w)
				continue
			}
			ref := pahoEncode(p.ph)
			if !eqb(enc, ref) {
				fail(p.name+"-encode-disagrees", fmt.Sprintf("%s: EncodeTo % x, paho % x", p.name, enc, ref), w)
			}
			back, e := decode(enc)
			if e != "" {
				fail(p.name+"-roundtrip", e, w)
			} else if !reflect.DeepEqual(back, p.em) {
				fail(p.name+"-roundtrip", fmt.Sprintf("%s: %+v != %+v", p.name, back, p.em), w)
			}
			got, e := decode(ref)
			if e != "" {
				fail(p.name+"-decode-rejects-wellformed", e, w)
			} else if !reflect.DeepEqual(got, p.em) {
				fail(p.name+"-decode-disagrees", fmt.Sprintf("%s: %+v != %+v", p.name, got, p.em), w)
			}
		}
	}
	rec.Add("cases_enumerated", int64(caseNo))
}

func tuplesEq(a, b []mqtt.TopicQOSTuple, qos bool) bool {
	if len(a) != len(b) {
		return false
	}
	for i := range a {
		if !eqb(a[i].Topic, b[i].Topic) || (qos && a[i].Qos != b[i].Qos) {
			return false
		}
	}
	return true
}

func kindOf(perr string) string {
	if len(perr) >= 5 && perr[:5] == "panic" {
		return "panics"
	}
	return "refuses"
}

func sizeClass(bl int) string {
	switch {
	case bl > 65536:
		return "above-limit"
	case bl > 65530:
		return "65531..65536"
	default:
		return "within-buffer"
	}
}
