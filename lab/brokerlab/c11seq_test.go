//go:build verif

// C11 part "mixed" — key generation answers depend on the request alone (DESIGN §10.5c-f).
// The enumeration of c11_test.go sends every request with all four fields, one at a time. Here seeded
// SEQUENCES of requests are sent in which fields are omitted (no "type": no permission requested; no "ttl":
// no expiry), refused requests (invalid / over-deep channels, expired and foreign parents) are mixed with
// accepted ones, master and extension requests alternate - and, in the concurrent half, 3-6 clients send
// such sequences at the same time. Every returned key is decrypted and compared with the prediction made
// from ITS OWN request only; state left over from an earlier or a concurrent request (a reused request
// object, a pooled key buffer) shows as a permission, target, expiry or identity nobody asked for.
package brokerlab

import (
	"fmt"
	"strings"
	"sync"
	"testing"
	"time"

	"github.com/emitter-io/emitter/internal/security"
	"github.com/emitter-io/emitter/verif/lab/vk"
)

type c11Req struct {
	parent  string // "master" | "ext" | "expired-master" | "foreign-master" | "ordinary"
	channel string
	valid   bool // channel acceptable for this parent
	ty      *string
	ttl     *int32
}

func (q c11Req) String() string {
	ty, ttl := "<omitted>", "<omitted>"
	if q.ty != nil {
		ty = fmt.Sprintf("%q", *q.ty)
	}
	if q.ttl != nil {
		ttl = fmt.Sprint(*q.ttl)
	}
	return fmt.Sprintf("%s channel=%q type=%s ttl=%s", q.parent, q.channel, ty, ttl)
}

func TestC11Mixed(t *testing.T) {
	rec := vk.New("C11", "mixed")
	defer rec.Finish(t)
	rec.Rule("case = one seeded sequence of 40 (concurrent half: 160, pipelined per client) emitter/keygen/ requests on a real broker (licence v1/v2/v3): master and link-extension requests alternating, the type and/or ttl field omitted in a third of them, refused requests (unparsable and over-deep channels, expired / foreign / ordinary parents) in between; even cases send the sequence from one client, odd cases split it over 4-8 clients that each pipeline their share at the same time; " +
		"every returned key is decrypted and its permissions, identity, expiry and target (by use) compared with the prediction from its own request; refused requests must not return a key; plus, every fifth case, 8-16 goroutines calling keygen.CreateKey directly in tight loops with requests unique per call (a few refused for their target), each returned key compared byte for byte (salt excluded) with the key its request describes; non-trivial = sequences with >=1 refused request followed by an accepted one and >=1 request with an omitted field after one that carried it; distinct = hash of the request list")
	n := vk.N(60, 4000)
	for ci := 0; ci < n; ci++ {
		if !vk.Mine(ci) {
			continue
		}
		runC11Mixed(rec, ci)
		if ci%5 == 0 {
			runC11Direct(rec, ci)
		}
	}
}

// runC11Direct: 8-16 goroutines call keygen.CreateKey (the function behind emitter/keygen/ and the HTTP form) in tight
// loops with requests that are unique per call (mask, channel, ttl), a few of them refused for their target; every returned
// key is decrypted and compared byte for byte (salt excluded) with the key its own request describes.
func runC11Direct(rec *vk.Rec, ci int) {
	r := vk.NewRand(vk.Seed(), "C11direct", ci)
	lic := 1 + ci%3
	b, err := NewBroker(Opts{LicenseVersion: lic})
	if err != nil {
		rec.Inconclusive(err.Error())
		return
	}
	defer b.Close()
	kg := b.Svc.VerifKeygen()
	ng := r.Range(8, 16)
	per := vk.N(1500, 12000)
	var wg sync.WaitGroup
	var mu sync.Mutex
	reported := false
	var checked, refused int64
	for g := 0; g < ng; g++ {
		gr := vk.NewRand(vk.Seed(), fmt.Sprintf("C11direct-g%d", g), ci)
		wg.Add(1)
		go func(g int, gr *vk.Rand) {
			defer wg.Done()
			nchk, nref := int64(0), int64(0)
			for i := 0; i < per; i++ {
				mask := uint8(gr.Intn(128)) << 1
				ch := fmt.Sprintf("g%d/n%d/%s", g, i%97, []string{"", "x/", "+/", "#/", "x/y/#/"}[gr.Intn(5)])
				exp := time.Unix(0, 0)
				if gr.Bool() {
					exp = time.Unix(1900000000+int64(gr.Intn(100000)), 0)
				}
				bad := gr.Chance(6)
				if bad {
					ch = []string{"g/bad", "", strings.Repeat("d/", 40)}[gr.Intn(3)]
				}
				got, e := kg.CreateKey(b.Master, ch, mask, exp)
				if bad {
					nref++
					if e == nil {
						mu.Lock()
						if !reported {
							reported = true
							rec.Violation(ci, "mixed/key-issued-for-refusable-request", fmt.Sprintf("licence v%d: CreateKey issued a key for channel %q", lic, ch), map[string]interface{}{"channel": ch})
						}
						mu.Unlock()
					}
					continue
				}
				if e != nil {
					continue
				}
				k, err := b.Cipher.DecryptKey([]byte(got))
				want := security.Key(make([]byte, 24))
				want.SetMaster(1)
				want.SetContract(b.Lic.Contract())
				want.SetSignature(b.Lic.Signature())
				want.SetPermissions(mask)
				want.SetExpires(exp)
				want.SetTarget(ch)
				nchk++
				if err != nil || len(k) != 24 || string(k[2:]) != string(want[2:]) {
					mu.Lock()
					if !reported {
						reported = true
						rec.Violation(ci, "mixed/concurrent-createkey-foreign-fields", fmt.Sprintf("licence v%d, %d goroutines calling CreateKey: the key returned for (channel %q, permissions %q, expires %d) decrypts to permissions %q expires %d, fields % x, expected % x", lic, ng, ch, permString(mask), exp.Unix(), permString(k.Permissions()), k.Expires().Unix(), []byte(k[2:]), []byte(want[2:])),
							map[string]interface{}{"licence": lic, "goroutines": ng, "channel": ch, "requested_permissions": permString(mask)})
					}
					mu.Unlock()
					return
				}
			}
			mu.Lock()
			checked += nchk
			refused += nref
			mu.Unlock()
		}(g, gr)
	}
	wg.Wait()
	rec.Add("direct_keys_checked", checked)
	rec.Add("direct_refused", refused)
	rec.Case(vk.Hash("direct", lic, ng, ci), refused > 0 && checked > 0)
}

func runC11Mixed(rec *vk.Rec, ci int) {
	r := vk.NewRand(vk.Seed(), "C11mixed", ci)
	lic := 1 + (ci/2)%3
	b, err := NewBroker(Opts{LicenseVersion: lic})
	if err != nil {
		rec.Inconclusive(err.Error())
		return
	}
	defer b.Close()
	extMask := Perms("rwlspe")
	extKey := b.RawKey(func(k security.Key) { k.SetPermissions(extMask); k.SetTarget("a/b/") })
	parents := map[string]string{
		"master":         b.Master,
		"ext":            extKey,
		"expired-master": b.RawKey(func(k security.Key) { k.SetPermissions(security.AllowMaster); k.SetExpires(time.Now().Add(-time.Hour)) }),
		"foreign-master": b.RawKey(func(k security.Key) { k.SetPermissions(security.AllowMaster); k.SetContract(k.Contract() + 1) }),
		"ordinary":       b.RawKey(func(k security.Key) { k.SetPermissions(Perms("rwslp")); k.SetTarget("a/#/") }),
	}
	deep := strings.Repeat("d/", 40)
	types := []string{"rw", "r", "rwslp", "l", "wsx", "", "rwslpex", "p"}
	ttls := []int32{0, 3600, 86400, 600}
	var reqs []c11Req
	nreq := 40
	if ci%2 == 1 {
		nreq = 160 // the concurrent half: more requests, pipelined per client
	}
	for i := 0; i < nreq; i++ {
		q := c11Req{}
		switch x := r.Intn(100); {
		case x < 45:
			q.parent = "master"
			switch y := r.Intn(10); {
			case y < 6:
				q.channel, q.valid = []string{"a/", "a/b/", "x/y/z/", "a/+/", "q/#/"}[r.Intn(5)], true
			case y < 8:
				q.channel = []string{"a/b", ""}[r.Intn(2)] // unparsable
			default:
				q.channel = deep // more levels than a key target can hold
			}
		case x < 80:
			q.parent = "ext"
			switch y := r.Intn(10); {
			case y < 7:
				q.channel, q.valid = "a/b/", true
			case y < 9:
				q.channel = []string{"a/c/", "b/", "a/"}[r.Intn(3)] // not the extendable channel
			default:
				q.channel = "a/b"
			}
		default:
			q.parent = []string{"expired-master", "foreign-master", "ordinary"}[r.Intn(3)]
			q.channel = "a/b/"
		}
		if !r.Chance(33) {
			ty := types[r.Intn(len(types))]
			q.ty = &ty
		}
		if !r.Chance(33) {
			ttl := ttls[r.Intn(len(ttls))]
			q.ttl = &ttl
		}
		reqs = append(reqs, q)
	}
	nclients := 1
	if ci%2 == 1 {
		nclients = r.Range(4, 8)
	}
	type outcome struct {
		q      c11Req
		status int
		key    string
		raw    string
		connID string
		t0, t1 time.Time
		err    error
	}
	outs := make([]outcome, len(reqs))
	var wg sync.WaitGroup
	start := make(chan struct{})
	for c := 0; c < nclients; c++ {
		cl := b.Attach(fmt.Sprintf("kg%d", c), nil)
		if rc, err := cl.Connect(cl.Name, "", nil); err != nil || rc != 0 {
			rec.Inconclusive("connect")
			return
		}
		id, err := cl.Me()
		if err != nil {
			rec.Inconclusive("me: " + err.Error())
			return
		}
		wg.Add(1)
		go func(c int, cl *Client, id string) {
			defer wg.Done()
			defer cl.Abort()
			<-start
			var mine []int
			var bodies []interface{}
			for i := c; i < len(reqs); i += nclients {
				q := reqs[i]
				body := map[string]interface{}{"key": parents[q.parent], "channel": q.channel}
				if q.ty != nil {
					body["type"] = *q.ty
				}
				if q.ttl != nil {
					body["ttl"] = *q.ttl
				}
				mine = append(mine, i)
				bodies = append(bodies, body)
			}
			if nclients == 1 { // one request at a time
				for j, i := range mine {
					o := outcome{q: reqs[i], connID: id, t0: time.Now()}
					rep, err := cl.Request("keygen", bodies[j])
					o.t1 = time.Now()
					if err != nil {
						o.err = err
						outs[i] = o
						return
					}
					o.status, o.raw = rep.Status, rep.Raw
					o.key, _ = rep.Fields["key"].(string)
					outs[i] = o
				}
				return
			}
			// concurrent half: every client pipelines its requests, so the clients' requests overlap inside the broker
			t0 := time.Now()
			reps, err := cl.RequestMany("keygen", bodies)
			t1 := time.Now()
			for j, i := range mine {
				o := outcome{q: reqs[i], connID: id, t0: t0, t1: t1, err: err}
				if err == nil {
					if reps[j] == nil {
						o.err = fmt.Errorf("no reply to pipelined request %d", j)
					} else {
						o.status, o.raw = reps[j].Status, reps[j].Raw
						o.key, _ = reps[j].Fields["key"].(string)
					}
				}
				outs[i] = o
			}
		}(c, cl, id)
	}
	close(start)
	wg.Wait()
	var descs []string
	for _, q := range reqs {
		descs = append(descs, q.String())
	}
	refusedThenAccepted, omittedAfterCarried := false, false
	sawRefused, sawType, sawTTL := false, false, false
	for i, o := range outs {
		if o.err != nil {
			rec.Inconclusive("keygen: " + o.err.Error())
			return
		}
		q := o.q
		w := map[string]interface{}{"parent": q.parent, "request": q.String(), "position": i, "clients": nclients, "sequence": descs}
		fail := func(kind, desc string, w map[string]interface{}) {
			w["licence"] = lic
			rec.Violation(ci, "mixed/"+kind, fmt.Sprintf("licence v%d, request %d of the sequence (%s), %d client(s): %s", lic, i, q.String(), nclients, desc), w)
		}
		issued := o.status == 200 && o.key != ""
		mayIssue := (q.parent == "master" || q.parent == "ext") && q.valid
		rec.Inc("requests")
		if !mayIssue {
			sawRefused = true
			if issued {
				fail("key-issued-for-refusable-request", "a key was issued: "+o.raw, w)
			}
			continue
		}
		if !issued {
			fail("valid-keygen-refused", "refused: "+o.raw, w)
			continue
		}
		if sawRefused {
			refusedThenAccepted = true
		}
		if (q.ty == nil && sawType) || (q.ttl == nil && sawTTL) {
			omittedAfterCarried = true
		}
		if q.ty != nil && *q.ty != "" {
			sawType = true
		}
		if q.ttl != nil && *q.ttl != 0 {
			sawTTL = true
		}
		k, err := b.Cipher.DecryptKey([]byte(o.key))
		if err != nil || len(k) != 24 {
			fail("returned-key-undecryptable", o.key, w)
			continue
		}
		want := uint8(0)
		if q.ty != nil {
			want = Perms(*q.ty)
		}
		target := q.channel
		if q.parent == "ext" {
			want &= extMask &^ security.AllowExtend
			target = q.channel + o.connID + "/"
		}
		ttl := int32(0)
		if q.ttl != nil {
			ttl = *q.ttl
		}
		c11CheckFields(rec, fail, w, k, want, b.Lic.Contract(), b.Lic.Signature(), 1, ttl, o.t0, o.t1)
		c11CheckUse(rec, b, fail, w, o.key, target, want)
		rec.Inc("keys_checked")
	}
	rec.Case(vk.Hash(lic, nclients, strings.Join(descs, ";")), refusedThenAccepted && omittedAfterCarried)
	if rec.WantSample() {
		rec.Sample(map[string]interface{}{"licence": lic, "clients": nclients, "first_requests": descs[:5]})
	}
}
