//go:build verif

// C08 — a connection that ends leaves nothing behind; its last will fires once (DESIGN §5 C08).
// Every cut point of a generated victim session × every way of ending, against one real broker
// with persistent watchers; after the broker has closed its end: trie dump, connection counter,
// presence notifications (sentinel barrier) and will deliveries are compared with the model.
package brokerlab

import (
	"encoding/json"
	"fmt"
	"net"
	"sort"
	"strings"
	"testing"
	"time"

	"github.com/emitter-io/emitter/verif/lab/fakenet"
	"github.com/emitter-io/emitter/verif/lab/mqttref"
	"github.com/emitter-io/emitter/verif/lab/vk"
)

type c08Pkt struct {
	desc  string
	bytes []byte
	apply func(m *c08Model)
}

type c08Model struct {
	held    map[string]bool // filter -> held (trie pair expected while alive)
	notes   []string        // expected notifications visible to the watcher, in order
	willDue bool
	willPay string
}

func (m *c08Model) sub(f string) {
	if !m.held[f] {
		m.held[f] = true
		if strings.HasPrefix(f, "a/") {
			m.notes = append(m.notes, "subscribe "+f)
		}
	}
}
func (m *c08Model) unsub(f string) {
	if m.held[f] {
		delete(m.held, f)
		if strings.HasPrefix(f, "a/") {
			m.notes = append(m.notes, "unsubscribe "+f)
		}
	}
}

type c08Env struct {
	b                   *Broker
	watcher, willw      *Client
	bystander, helper   *Client
	ids                 map[string]string // conn id -> name (persistent clients)
	kAll, kRead, kPres  string
	baseline            map[string]bool
	baseNodes           int
	baseConns           int64
	sentinel            int
}

func c08Setup() (*c08Env, error) { return c08SetupOpts(nil) }

// c08SetupOpts: watcherHook, if set, is applied to the server end of the presence watcher's transport.
func c08SetupOpts(watcherHook func(sv *fakenet.Conn)) (*c08Env, error) {
	b, err := NewBroker(Opts{})
	if err != nil {
		return nil, err
	}
	e := &c08Env{b: b, ids: map[string]string{}}
	e.kAll = b.MustKey("#/", Perms("rw"))
	e.kRead = b.MustKey("#/", Perms("r"))
	e.kPres = b.MustKey("#/", Perms("rwp"))
	mk := func(name string) (*Client, error) {
		var wrap func(net.Conn) net.Conn
		if name == "watcher" && watcherHook != nil {
			wrap = func(sv net.Conn) net.Conn {
				if fc, ok := sv.(*fakenet.Conn); ok {
					watcherHook(fc)
				}
				return sv
			}
		}
		c := b.Attach(name, wrap)
		if rc, err := c.Connect(name, "u-"+name, nil); err != nil || rc != 0 {
			return nil, fmt.Errorf("connect %s: rc=%d %v", name, rc, err)
		}
		id, err := c.Me()
		if err != nil {
			return nil, err
		}
		e.ids[id] = name
		return c, nil
	}
	if e.watcher, err = mk("watcher"); err != nil {
		return nil, err
	}
	if e.willw, err = mk("willw"); err != nil {
		return nil, err
	}
	if e.bystander, err = mk("bystander"); err != nil {
		return nil, err
	}
	if e.helper, err = mk("helper"); err != nil {
		return nil, err
	}
	tr := true
	if r, err := e.watcher.Request("presence", map[string]interface{}{"key": e.kPres, "channel": "a/", "status": false, "changes": &tr}); err != nil || r.Status != 200 {
		return nil, fmt.Errorf("presence watch: %v %+v", err, r)
	}
	if rc, _, err := e.willw.Subscribe(e.kAll + "/w/"); err != nil || rc != 0 {
		return nil, fmt.Errorf("will watch: %v", err)
	}
	for _, f := range []string{"a/b/", "x/y/", "b/a/"} {
		if rc, _, err := e.bystander.Subscribe(e.kAll + "/" + f); err != nil || rc != 0 {
			return nil, fmt.Errorf("bystander: %v", err)
		}
	}
	if err := e.barrier(); err != nil {
		return nil, err
	}
	e.watcher.Take()
	e.baseNodes, e.baseline = e.dump()
	e.baseConns = b.Svc.VerifConnections()
	return e, nil
}

func (e *c08Env) dump() (int, map[string]bool) {
	nodes, pairs := e.b.Svc.VerifTrie().VerifDump()
	out := map[string]bool{}
	for _, p := range pairs {
		out[fmt.Sprintf("%v|%s", []uint32(p.Ssid), p.ID)] = true
	}
	return nodes, out
}

type c08Note struct {
	Event   string `json:"event"`
	Channel string `json:"channel"`
	Who     struct {
		ID string `json:"id"`
	} `json:"who"`
}

// barrier: logical drain of the presence queue (see Broker.PresenceBarrier).
func (e *c08Env) barrier() error {
	e.sentinel++
	if err := e.b.PresenceBarrier(e.helper, e.kAll, e.sentinel); err != nil {
		return err
	}
	return e.watcher.DrainInto()
}

func presenceReq(id uint16, key, channel string, changes bool) []byte {
	body, _ := json.Marshal(map[string]interface{}{"key": key, "channel": channel, "status": false, "changes": changes})
	return mqttref.Publish(id, "emitter/presence/", body, 1, false)
}
func linkReq(id uint16, key, name, channel string, sub bool) []byte {
	body, _ := json.Marshal(map[string]interface{}{"key": key, "name": name, "channel": channel, "subscribe": sub})
	return mqttref.Publish(id, "emitter/link/", body, 1, false)
}

// (the share-group filters sit outside a/, the branch whose presence the watcher follows)
var c08Filters = []string{"a/b/", "a/c/", "a/b/c/", "a/+/", "b/a/", "a/a/", "b/b/", "a/c/b/", "a/b/a/", "c/c/", "a/b/b/a/", "a/c/c/a/", "$share/g1/b/s/", "$share/g2/c/s/t/", "$share/g1/b/s/"}

// groups of three or more filters whose ssids fold to the same per-connection hash code
var c08Colliding = [][]string{{"a/a/", "b/b/", "c/c/"}, {"a/b/c/", "a/c/b/", "b/a/c/", "c/a/b/"}, {"a/b/", "b/a/", "a/b/c/c/"}}

func c08Session(r *vk.Rand, e *c08Env, tag string) []c08Pkt {
	var s []c08Pkt
	willKind := r.Intn(4) // 0 none, 1 due, 2 read-only key, 3 garbage key
	var will *mqttref.Will
	willPay := "will-" + tag
	switch willKind {
	case 1:
		will = &mqttref.Will{Topic: e.kAll + "/w/x/", Payload: []byte(willPay), Retain: r.Bool()}
	case 2:
		will = &mqttref.Will{Topic: e.kRead + "/w/x/", Payload: []byte(willPay)}
	case 3:
		will = &mqttref.Will{Topic: strings.Repeat("Z", 32) + "/w/x/", Payload: []byte(willPay)}
	}
	s = append(s, c08Pkt{desc: fmt.Sprintf("CONNECT will=%d", willKind), bytes: mqttref.Connect("victim-"+tag, "vu", will),
		apply: func(m *c08Model) { m.willDue = willKind == 1; m.willPay = willPay }})
	n := r.Range(6, 11)
	id := uint16(10)
	var used []string
	if r.Chance(40) { // a session that holds three or more colliding filters and removes one from the middle of the chain
		g := c08Colliding[r.Intn(len(c08Colliding))]
		for _, f := range g {
			f := f
			id++
			used = append(used, f)
			s = append(s, c08Pkt{desc: "SUBSCRIBE " + f, bytes: mqttref.Subscribe(id, e.kAll+"/"+f), apply: func(m *c08Model) { m.sub(f) }})
		}
		mid := g[1+r.Intn(len(g)-2)]
		id++
		s = append(s, c08Pkt{desc: "UNSUBSCRIBE " + mid, bytes: mqttref.Unsubscribe(id, e.kAll+"/"+mid), apply: func(m *c08Model) { m.unsub(mid) }})
		n = r.Range(1, 4)
	}
	for i := 0; i < n; i++ {
		id++
		x := r.Intn(100)
		switch {
		case x < 40:
			f := c08Filters[r.Intn(len(c08Filters))]
			if len(used) > 0 && r.Chance(25) {
				f = used[r.Intn(len(used))]
			}
			used = append(used, f)
			if r.Chance(20) {
				g := c08Filters[r.Intn(len(c08Filters))]
				used = append(used, g)
				s = append(s, c08Pkt{desc: "SUBSCRIBE " + f + " " + g, bytes: mqttref.Subscribe(id, e.kAll+"/"+f, e.kAll+"/"+g),
					apply: func(m *c08Model) { m.sub(f); m.sub(g) }})
			} else {
				s = append(s, c08Pkt{desc: "SUBSCRIBE " + f, bytes: mqttref.Subscribe(id, e.kAll+"/"+f), apply: func(m *c08Model) { m.sub(f) }})
			}
		case x < 60:
			f := c08Filters[r.Intn(len(c08Filters))]
			if len(used) > 0 && r.Chance(70) {
				f = used[r.Intn(len(used))]
			}
			s = append(s, c08Pkt{desc: "UNSUBSCRIBE " + f, bytes: mqttref.Unsubscribe(id, e.kAll+"/"+f), apply: func(m *c08Model) { m.unsub(f) }})
		case x < 72:
			f := r.Pick("a/l/", "a/b/", "b/l/")
			used = append(used, f)
			auto := r.Chance(75)
			s = append(s, c08Pkt{desc: fmt.Sprintf("LINK %s auto=%v", f, auto), bytes: linkReq(id, e.kAll, "l1", f, auto), apply: func(m *c08Model) {
				if auto {
					m.sub(f)
				}
			}})
		case x < 84:
			f := r.Pick("a/q/", "a/b/")
			on := r.Chance(80)
			s = append(s, c08Pkt{desc: fmt.Sprintf("PRESENCE changes=%v %s", on, f), bytes: presenceReq(id, e.kPres, f, on), apply: func(m *c08Model) {
				if on {
					m.held["presence:"+f] = true
				} else {
					delete(m.held, "presence:"+f)
				}
			}})
		case x < 94:
			s = append(s, c08Pkt{desc: "PUBLISH a/b/", bytes: mqttref.Publish(id, e.kAll+"/a/b/", []byte("vp-"+tag), 1, false), apply: func(m *c08Model) {}})
		default:
			s = append(s, c08Pkt{desc: "PINGREQ", bytes: mqttref.Pingreq(), apply: func(m *c08Model) {}})
		}
	}
	return s
}

var c08Endings = []string{"disconnect", "half-close", "abrupt", "malformed", "panic"}

func TestC08(t *testing.T) {
	rec := vk.New("C08", "cuts")
	defer rec.Finish(t)
	thorough := vk.Tier() == "thorough"
	rec.Rule("case = (victim session, cut offset, ending): the first `offset` bytes of a generated session (CONNECT with/without will, subscribes/unsubscribes incl. colliding filters, " +
		"link auto-subscribe, presence-change subscription, publish) are fed to a real broker and the connection is ended by DISCONNECT / half-close / abrupt close / malformed packet / decoder-panic packet; " +
		"cut offsets: every packet boundary and " + map[bool]string{true: "every byte offset", false: "every 8th byte offset"}[thorough] + "; non-trivial = the victim held >=1 subscription or a due will at the cut; " +
		"distinct = (session hash, offset, ending)")
	rec.Exhaustive(false)
	nsess := vk.N(8, 64)
	for si := 0; si < nsess; si++ {
		if !vk.Mine(si) {
			continue
		}
		runC08Session(rec, si, thorough)
	}
}

func runC08Session(rec *vk.Rec, si int, thorough bool) {
	r := vk.NewRand(vk.Seed(), "C08", si)
	env, err := c08Setup()
	if err != nil {
		rec.Inconclusive("setup: " + err.Error())
		return
	}
	defer func() { env.b.Close() }()
	sess := c08Session(r, env, fmt.Sprintf("%d", si))
	var all []byte
	var bounds []int
	var descs []string
	for _, p := range sess {
		all = append(all, p.bytes...)
		bounds = append(bounds, len(all))
		descs = append(descs, p.desc)
	}
	isBound := map[int]int{0: 0}
	for i, b := range bounds {
		isBound[b] = i + 1
	}
	sessHash := vk.Hash(string(all))
	rec.Inc("sessions")
	rec.Add("session_bytes", int64(len(all)))
	for off := 0; off <= len(all); off++ {
		npk, atBound := isBound[off]
		if !atBound && !thorough && off%8 != 0 {
			continue
		}
		if !atBound {
			npk = sort.SearchInts(bounds, off+1) // packets completely inside the prefix
		}
		for ei, ending := range c08Endings {
			if !atBound && (ending == "disconnect" || ending == "malformed" || ending == "panic") {
				continue // these append a packet and are only meaningful at a boundary
			}
			if !atBound && !thorough && (off/8+ei)%2 == 1 {
				continue
			}
			ok := runC08Cut(rec, env, si, sess, all, off, npk, atBound, ending, descs, sessHash)
			if !ok {
				// state of the shared broker is no longer the baseline: rebuild
				env.b.Close()
				env, err = c08Setup()
				if err != nil {
					rec.Inconclusive("re-setup: " + err.Error())
					return
				}
				// the session bytes embed keys of the old broker: regenerate the same session for the new one
				r2 := vk.NewRand(vk.Seed(), "C08", si)
				sess = c08Session(r2, env, fmt.Sprintf("%d", si))
				all = all[:0]
				for _, p := range sess {
					all = append(all, p.bytes...)
				}
			}
		}
	}
}

// returns false when the shared broker must be rebuilt (violation or inconclusive)
func runC08Cut(rec *vk.Rec, env *c08Env, si int, sess []c08Pkt, all []byte, off, npk int, atBound bool, ending string, descs []string, sessHash uint64) bool {
	m := &c08Model{held: map[string]bool{}}
	for i := 0; i < npk; i++ {
		sess[i].apply(m)
	}
	caseIdx := si
	wit := map[string]interface{}{"session": descs, "cut_offset": off, "complete_packets": npk, "ending": ending, "session_bytes": len(all)}
	fail := func(kind, desc string) {
		rec.Violation(caseIdx, kind, fmt.Sprintf("session %d cut at byte %d (after %d complete packets, boundary=%v) ending=%s: %s", si, off, npk, atBound, ending, desc), wit)
	}
	cl, sv := fakenet.Pair()
	env.b.Svc.VerifAttach(sv)
	v := &Client{Name: "victim", C: cl, Wait: 120 * time.Second}
	v.Send(all[:off])
	definite := true // whether every complete packet is certainly processed before the end
	switch ending {
	case "disconnect":
		v.Send(mqttref.Disconnect())
	case "half-close":
		cl.CloseWrite()
	case "abrupt":
		cl.Close()
		definite = false
	case "malformed":
		v.Send([]byte{0x30, 0xff, 0xff, 0xff, 0xff, 0x7f, 0x00})
	case "panic":
		v.Send([]byte{0x82, 0x00}) // SUBSCRIBE with an empty body
	}
	select {
	case <-sv.Closed():
	case <-time.After(120 * time.Second):
		rec.Inconclusive(fmt.Sprintf("session %d off %d %s: broker did not close the connection within the watchdog", si, off, ending))
		cl.Close()
		return false
	}
	cl.Close()
	if err := env.barrier(); err != nil {
		rec.Inconclusive("barrier: " + err.Error())
		return false
	}
	good := true
	// 1. trie
	nodes, d := env.dump()
	if diff := c08Diff(d, env.baseline); diff != "" || nodes != env.baseNodes {
		fail("left-behind", fmt.Sprintf("trie differs from the pre-session dump (nodes %d vs %d): %s; model held %v", nodes, env.baseNodes, diff, keysOf(m.held)))
		good = false
	}
	// 2. counter
	if c := env.b.Svc.VerifConnections(); c != env.baseConns {
		fail("connection-counter", fmt.Sprintf("connections=%d, before the session %d", c, env.baseConns))
		good = false
	}
	// 3. presence notifications of the victim
	pubs, _ := env.watcher.Take()
	var got []string
	for _, p := range pubs {
		var n c08Note
		if p.Topic != "emitter/presence/" || json.Unmarshal([]byte(p.Payload), &n) != nil {
			continue
		}
		if _, persistent := env.ids[n.Who.ID]; persistent {
			continue
		}
		got = append(got, n.Event+" "+n.Channel)
	}
	if definite && npk >= 1 {
		want := append([]string(nil), m.notes...)
		var tail []string
		for f := range m.held {
			if strings.HasPrefix(f, "a/") {
				tail = append(tail, "unsubscribe "+f)
			}
		}
		// explicit transitions in order, close-time unsubscribes as a multiset
		nExp := len(want)
		if len(got) < nExp || strings.Join(got[:nExp], ",") != strings.Join(want, ",") || !sameMultiset(got[nExp:], tail) {
			fail("presence-notifications", fmt.Sprintf("watcher saw %v; expected %v followed by (any order) %v", got, want, tail))
			good = false
		}
	} else {
		// indefinite: per channel the stream must alternate subscribe/unsubscribe and end unsubscribed
		state := map[string]bool{}
		for _, g := range got {
			p := strings.SplitN(g, " ", 2)
			if p[0] == "subscribe" {
				if state[p[1]] {
					fail("presence-notifications", fmt.Sprintf("two subscribe notifications in a row for %s: %v", p[1], got))
					good = false
				}
				state[p[1]] = true
			} else {
				if !state[p[1]] {
					fail("presence-notifications", fmt.Sprintf("unsubscribe without subscribe for %s: %v", p[1], got))
					good = false
				}
				state[p[1]] = false
			}
		}
		for ch, on := range state {
			if on {
				fail("presence-notifications", fmt.Sprintf("no unsubscribe notification for %s after the connection ended: %v", ch, got))
				good = false
			}
		}
	}
	rec.Inc("presence_streams_compared")
	// 4. will
	wp, _ := env.willw.Take()
	wills := 0
	for _, p := range wp {
		if p.Topic == "w/x/" {
			if p.Payload != m.willPay && m.willPay != "" {
				fail("will-altered", fmt.Sprintf("will payload %q, expected %q", p.Payload, m.willPay))
				good = false
			}
			wills++
		}
	}
	wantWill := 0
	if npk >= 1 && m.willDue {
		wantWill = 1
	}
	if wills != wantWill {
		kind := "will-missing"
		if wills > wantWill {
			kind = "will-extra"
		}
		fail(kind, fmt.Sprintf("will delivered %d times, expected %d", wills, wantWill))
		good = false
	}
	env.bystander.Take()
	env.helper.Take()
	rec.Inc("cuts_" + ending)
	rec.Case(vk.Hash(sessHash, off, ending), len(m.held) > 0 || wantWill == 1)
	if rec.WantSample() && len(m.held) > 0 && off > 0 {
		rec.Sample(wit)
	}
	return good
}

func keysOf(m map[string]bool) []string {
	var k []string
	for s := range m {
		k = append(k, s)
	}
	sort.Strings(k)
	return k
}

func sameMultiset(a, b []string) bool {
	if len(a) != len(b) {
		return false
	}
	x := append([]string(nil), a...)
	y := append([]string(nil), b...)
	sort.Strings(x)
	sort.Strings(y)
	return strings.Join(x, ",") == strings.Join(y, ",")
}

func c08Diff(a, b map[string]bool) string {
	var d []string
	for k := range a {
		if !b[k] {
			d = append(d, "extra "+k)
		}
	}
	for k := range b {
		if !a[k] {
			d = append(d, "missing "+k)
		}
	}
	sort.Strings(d)
	if len(d) > 5 {
		d = d[:5]
	}
	return strings.Join(d, "; ")
}

// ---- a victim holding far more subscriptions than the presence queue has slots, behind slow watchers ----

func TestC08Big(t *testing.T) {
	rec := vk.New("C08", "big")
	defer rec.Finish(t)
	rec.Rule("case = a victim connection subscribes to 120-220 channels under the watched channel (a few SUBSCRIBE packets) and is then cut (DISCONNECT / half-close / abrupt close) while the watcher's socket takes ~2 ms per write (slower than the broker produces notifications), " +
		"so that the close-time notifications exceed the 100-slot queue; after the broker has closed the connection and the logical queue barrier: the trie equals the pre-session dump, the connection counter is back, " +
		"and the watcher holds exactly one subscribe and one unsubscribe per channel; non-trivial = every case; distinct = (count, ending, case)")
	n := vk.N(6, 120)
	for ci := 0; ci < n; ci++ {
		if !vk.Mine(ci) {
			continue
		}
		r := vk.NewRand(vk.Seed(), "C08big", ci)
		env, err := c08SetupOpts(func(sv *fakenet.Conn) { sv.SetWriteHook(func(int) { time.Sleep(2 * time.Millisecond) }) })
		if err != nil {
			rec.Inconclusive("setup: " + err.Error())
			continue
		}
		k := r.Range(120, 220)
		ending := []string{"disconnect", "half-close", "abrupt"}[r.Intn(3)]
		cl, sv := fakenet.Pair()
		env.b.Svc.VerifAttach(sv)
		v := &Client{Name: "victim", C: cl, Wait: 120 * time.Second}
		if rc, err := v.Connect("bigvictim", "", nil); err != nil || rc != 0 {
			rec.Inconclusive("victim connect")
			env.b.Close()
			continue
		}
		var topics []string
		for i := 0; i < k; i++ {
			topics = append(topics, fmt.Sprintf("%s/a/big/v%d/", env.kAll, i))
		}
		okSubs := true
		for i := 0; i < len(topics) && okSubs; i += 40 {
			j := i + 40
			if j > len(topics) {
				j = len(topics)
			}
			if rcs, err := v.SubscribeMany(topics[i:j]); err != nil || len(rcs) != j-i {
				rec.Inconclusive(fmt.Sprintf("victim subscribe: %v", err))
				okSubs = false
			}
		}
		if !okSubs {
			env.b.Close()
			continue
		}
		switch ending {
		case "disconnect":
			v.Send(mqttref.Disconnect())
		case "half-close":
			cl.CloseWrite()
		case "abrupt":
			cl.Close()
		}
		select {
		case <-sv.Closed():
		case <-time.After(120 * time.Second):
			rec.Inconclusive("broker did not close the big victim within the watchdog")
			env.b.Close()
			continue
		}
		cl.Close()
		if err := env.barrier(); err != nil {
			rec.Inconclusive("barrier: " + err.Error())
			env.b.Close()
			continue
		}
		w := map[string]interface{}{"subscriptions": k, "ending": ending}
		nodes, d := env.dump()
		if diff := c08Diff(d, env.baseline); diff != "" || nodes != env.baseNodes {
			rec.Violation(ci, "big/left-behind", fmt.Sprintf("%d subscriptions, ending %s: trie differs from the pre-session dump: %s", k, ending, diff), w)
		}
		if c := env.b.Svc.VerifConnections(); c != env.baseConns {
			rec.Violation(ci, "big/connection-counter", fmt.Sprintf("connections=%d, before %d", c, env.baseConns), w)
		}
		pubs, _ := env.watcher.Take()
		subs, unsubs := map[string]int{}, map[string]int{}
		for _, p := range pubs {
			var n c08Note
			if p.Topic != "emitter/presence/" || json.Unmarshal([]byte(p.Payload), &n) != nil {
				continue
			}
			if _, persistent := env.ids[n.Who.ID]; persistent {
				continue
			}
			if n.Event == "subscribe" {
				subs[n.Channel]++
			} else {
				unsubs[n.Channel]++
			}
		}
		missing, extra := 0, 0
		for i := 0; i < k; i++ {
			ch := fmt.Sprintf("a/big/v%d/", i)
			if subs[ch] != 1 || unsubs[ch] != 1 {
				if subs[ch] < 1 || unsubs[ch] < 1 {
					missing++
				} else {
					extra++
				}
			}
		}
		rec.Add("big_notifications_checked", int64(2*k))
		if missing > 0 || extra > 0 {
			rec.Violation(ci, "big/presence-notifications", fmt.Sprintf("victim with %d subscriptions, ending %s: the watcher misses notifications for %d channels and has duplicates for %d (subscribe seen %d, unsubscribe seen %d)", k, ending, missing, extra, len(subs), len(unsubs)), w)
		}
		rec.Case(vk.Hash("big", k, ending, ci), true)
		if rec.WantSample() {
			rec.Sample(w)
		}
		env.b.Close()
	}
}
