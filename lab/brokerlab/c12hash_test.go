//go:build verif

// C12 part "hashtwin" — altered key strings chosen so that a 32-bit hash of them takes a prescribed value. The broker's
// hash (murmur3, seed 37) is public and its last block can be inverted, so for a key K accepted on channel c1 and any
// other channel c2 a holder of K can write down strings T != K (K with its last eight characters replaced) with
//     hash(T) = hash(K)                          or      hash(T) ^ hash(c2) = hash(K) ^ hash(c1).
// Whatever the broker remembers about keys it has seen, T is not K: presented for c2 (which K does not cover) it must be
// refused like any other garbage. Structured mutations meet such strings with probability 2^-32; this part constructs them.
package brokerlab

import (
	"fmt"
	"math/bits"
	"testing"
	"time"

	"github.com/emitter-io/emitter/internal/security"
	"github.com/emitter-io/emitter/internal/security/hash"
	"github.com/emitter-io/emitter/verif/lab/vk"
)

const (
	mC1 uint32 = 0xcc9e2d51
	mC2 uint32 = 0x1b873593
)

func inv32(a uint32) uint32 { // multiplicative inverse modulo 2^32 (a odd)
	x := a
	for i := 0; i < 5; i++ {
		x *= 2 - a*x
	}
	return x
}

func unfmix(h uint32) uint32 {
	h ^= h >> 16
	h *= inv32(0xc2b2ae35)
	h ^= h>>13 ^ h>>26
	h *= inv32(0x85ebca6b)
	h ^= h >> 16
	return h
}

// twins returns strings that equal k except for their last 8 characters, consist of valid key characters, and hash to target.
func twins(k string, target uint32, max int) []string {
	const alpha = "ABCDEFGHIJKLMNOPQRSTUVWXYZabcdefghijklmnopqrstuvwxyz0123456789-_"
	valid := [256]bool{}
	for i := 0; i < len(alpha); i++ {
		valid[alpha[i]] = true
	}
	b := []byte(k)
	// state after the first 24 bytes
	h := uint32(37)
	step := func(h, k1 uint32) uint32 {
		k1 *= mC1
		k1 = bits.RotateLeft32(k1, 15)
		k1 *= mC2
		h ^= k1
		h = bits.RotateLeft32(h, 13)
		return h*5 + 0xe6546b64
	}
	for i := 0; i < 24; i += 4 {
		h = step(h, uint32(b[i])|uint32(b[i+1])<<8|uint32(b[i+2])<<16|uint32(b[i+3])<<24)
	}
	h8 := unfmix(bits.ReverseBytes32(target)) ^ 32 // the hash ends with a byte swap; state before the length is mixed in
	pre := bits.RotateLeft32((h8-0xe6546b64)*inv32(5), -13)
	var out []string
	for i0 := 0; i0 < 64 && len(out) < max; i0++ {
		for i1 := 0; i1 < 64 && len(out) < max; i1++ {
			for i2 := 0; i2 < 64 && len(out) < max; i2++ {
				for i3 := 0; i3 < 64 && len(out) < max; i3++ {
					h7 := step(h, uint32(alpha[i0])|uint32(alpha[i1])<<8|uint32(alpha[i2])<<16|uint32(alpha[i3])<<24)
					k1 := (pre ^ h7) * inv32(mC2)
					k1 = bits.RotateLeft32(k1, -15)
					k1 *= inv32(mC1)
					c := [4]byte{byte(k1), byte(k1 >> 8), byte(k1 >> 16), byte(k1 >> 24)}
					if valid[c[0]] && valid[c[1]] && valid[c[2]] && valid[c[3]] {
						t := k[:24] + string([]byte{alpha[i0], alpha[i1], alpha[i2], alpha[i3], c[0], c[1], c[2], c[3]})
						if t != k && hash.OfString(t) == target {
							out = append(out, t)
						}
					}
				}
			}
		}
	}
	return out
}

func TestC12HashTwin(t *testing.T) {
	rec := vk.New("C12", "hashtwin")
	defer rec.Finish(t)
	rec.Rule("case = (licence version, issued key K accepted on c1, other channel c2, constructed string T): T equals K except for its last eight characters, is made of valid key characters and satisfies hash(T) = hash(K) or hash(T)^hash(c2) = hash(K)^hash(c1) for the broker's own 32-bit hash (constructed by inverting the last block of murmur3); K is presented on c1 first (accepted), then T on c2 and on c1: everything T is granted must be granted to K as well; " +
		"non-trivial = every case; distinct = (licence, K, c2, T)")
	caseNo := 0
	for lic := 1; lic <= 3; lic++ {
		b, err := NewBroker(Opts{LicenseVersion: lic})
		if err != nil {
			rec.Inconclusive(err.Error())
			continue
		}
		for ki, ks := range []struct{ target, perms, c1 string }{{"a/b/", "rw", "a/b/"}, {"a/#/", "rwl", "a/c/"}, {"b/", "r", "b/"}} {
			k, err := b.Key(ks.target, Perms(ks.perms), time.Unix(0, 0))
			if err != nil {
				continue
			}
			auth := func(key, ch string, bit uint8) bool {
				c := security.ParseChannel([]byte(key + "/" + ch))
				if c.ChannelType == security.ChannelInvalid {
					return false
				}
				_, _, ok := b.Svc.Authorize(c, bit)
				return ok
			}
			for _, c2 := range []string{"c/b/", "b/c/a/", "x/", "c/"} {
				targets := []uint32{hash.OfString(k), hash.OfString(k) ^ hash.OfString(ks.c1) ^ hash.OfString(c2)}
				for ti, tg := range targets {
					for _, tw := range twins(k, tg, 3) {
						caseNo++
						if !vk.Mine(caseNo) {
							continue
						}
						rec.Case(vk.Hash("twin", lic, ki, c2, ti, tw), true)
						rec.Inc("constructed_strings_presented")
						for _, bit := range []uint8{security.AllowRead, security.AllowWrite} {
							if !auth(k, ks.c1, security.AllowRead) { // K itself first: accepted, and remembered if the broker remembers
								rec.Note("the issued key was refused on its own channel")
							}
							for _, ch := range []string{c2, ks.c1} {
								if auth(tw, ch, bit) && !auth(k, ch, bit) {
									rec.Violation(caseNo, fmt.Sprintf("v%d/hash-twin-accepted", lic), fmt.Sprintf("licence v%d: key K=%s (target %s, %q) was accepted on %s; the string T=%s (K with its last 8 characters replaced so that %s) is then granted %s on %s, which K is not", lic, k, ks.target, ks.perms, ks.c1, tw,
										map[int]string{0: "hash(T)=hash(K)", 1: "hash(T)^hash(" + c2 + ")=hash(K)^hash(" + ks.c1 + ")"}[ti], map[uint8]string{security.AllowRead: "read", security.AllowWrite: "write"}[bit], ch),
										map[string]interface{}{"licence": lic, "K": k, "T": tw, "c1": ks.c1, "c2": c2})
								}
							}
						}
					}
				}
			}
		}
		b.Close()
	}
}
