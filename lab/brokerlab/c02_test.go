//go:build verif

// C02 — an acknowledged subscription gets every matching publish once, until removed (DESIGN §5).
package brokerlab

import (
	"encoding/json"
	"fmt"
	"sort"
	"strings"
	"testing"

	"github.com/emitter-io/emitter/internal/message"
	"github.com/emitter-io/emitter/internal/security"
	"github.com/emitter-io/emitter/verif/lab/vk"
)

// refMatch is the statement's matcher (same text as C01's, written again on purpose).
func refMatch(mqtt bool, f, ch []string) bool {
	if !mqtt {
		if len(f) > len(ch) {
			return false
		}
		for i := range f {
			if f[i] != "+" && f[i] != ch[i] {
				return false
			}
		}
		return true
	}
	if n := len(f); n > 0 && f[n-1] == "#" {
		if len(ch) < n {
			return false
		}
		for i := 0; i < n-1; i++ {
			if f[i] != "+" && f[i] != ch[i] {
				return false
			}
		}
		return true
	}
	if len(f) != len(ch) {
		return false
	}
	for i := range f {
		if f[i] != "+" && f[i] != ch[i] {
			return false
		}
	}
	return true
}

func chanStr(l []string) string { return strings.Join(l, "/") + "/" }

// xorCode is the per-connection bookkeeping key the property's quantifier points at.
func xorCode(contract uint32, levels []string) uint32 {
	ch := security.ParseChannel([]byte("k/" + chanStr(levels)))
	return message.NewSsid(contract, ch.Query).GetHashCode()
}

type c02Client struct {
	cl    *Client
	subs  map[string][]string // filter string -> levels (acknowledged, not removed)
	ever  map[string][]string // every filter this connection ever tried to (un)subscribe
	links map[string]string   // link name -> channel
	linkMe0 map[string]bool   // link registered with ?me=0
}

type c02Step struct {
	Op      string `json:"op"`
	Client  int    `json:"client"`
	Arg     string `json:"arg,omitempty"`
	Expect  string `json:"expect,omitempty"`
	Outcome string `json:"outcome,omitempty"`
}

var c02Levels = []string{"a", "b", "x", "y"}

func c02GenLevels(r *vk.Rand, prev [][]string, wild bool, mqtt bool) []string {
	if len(prev) > 0 && r.Chance(55) {
		p := append([]string(nil), prev[r.Intn(len(prev))]...)
		switch r.Intn(5) {
		case 0: // same
		case 1: // permutation (a/b vs b/a)
			perm := r.Perm(len(p))
			q := make([]string, len(p))
			for i, j := range perm {
				q[i] = p[j]
			}
			p = q
		case 2: // repetition (a/a vs b/b: both fold to the contract)
			l := c02Levels[r.Intn(len(c02Levels))]
			p = []string{l, l}
		case 3: // x/x/y vs y
			if len(p) <= 1 {
				l := c02Levels[r.Intn(len(c02Levels))]
				p = []string{l, l, p[0]}
			} else {
				p = p[len(p)-1:]
			}
		case 4: // prefix / extension
			if len(p) > 1 && r.Bool() {
				p = p[:len(p)-1]
			} else if len(p) < 3 {
				p = append(p, c02Levels[r.Intn(len(c02Levels))])
			}
		}
		for i := range p {
			if p[i] == "+" && !wild {
				p[i] = c02Levels[r.Intn(len(c02Levels))]
			}
			if p[i] == "#" {
				p[i] = c02Levels[r.Intn(len(c02Levels))]
			}
		}
		return p
	}
	d := r.Range(1, 3)
	l := make([]string, d)
	for i := range l {
		l[i] = c02Levels[r.Intn(len(c02Levels))]
		if wild && r.Chance(15) {
			l[i] = "+"
		}
	}
	if wild && mqtt && r.Chance(15) {
		l[len(l)-1] = "#"
	}
	return l
}

func TestC02(t *testing.T) {
	rec := vk.New("C02", "seq")
	defer rec.Finish(t)
	rec.Rule("case = one seeded sequential history of 60 connect/subscribe/unsubscribe/publish/link requests by 1-4 scripted clients against a real broker.Service " +
		"(emitter matcher 80%, mqtt 20%), every request awaited to its terminal reply, every publish followed by draining all clients and comparing with the reference model; " +
		"non-trivial = >=3 accepted publishes with a non-empty expected receiver set, >=1 failing request and >=1 unsubscribe of a held filter; distinct = hash of the request list")
	n := vk.N(400, 8000)
	for ci := 0; ci < n; ci++ {
		if vk.Mine(ci) {
			runC02(rec, ci)
		}
	}
}

func runC02(rec *vk.Rec, ci int) {
	r := vk.NewRand(vk.Seed(), "C02", ci)
	mqtt := r.Chance(20)
	opts := Opts{}
	if mqtt {
		opts.Matcher = "mqtt"
	}
	b, err := NewBroker(opts)
	if err != nil {
		rec.Inconclusive("broker: " + err.Error())
		return
	}
	defer b.Close()
	kAll := b.MustKey("#/", Perms("rw"))
	kRead := b.MustKey("#/", Perms("r"))
	kWrite := b.MustKey("#/", Perms("w"))
	kGarbage := strings.Repeat("A", 31) + "B"
	// keys whose target is one first level only (a/#/, b/#/, ...): used in place of the root key for half of the valid requests
	// on that level, and on ANOTHER level for requests that must be refused
	narrow := map[string]string{}
	for _, l := range c02Levels {
		narrow[l] = b.MustKey(l+"/#/", Perms("rw"))
	}
	keyFor := func(lv []string) string {
		if k, ok := narrow[lv[0]]; ok && r.Chance(50) {
			return k
		}
		return kAll
	}
	keyNotFor := func(lv []string) string {
		for {
			l := c02Levels[r.Intn(len(c02Levels))]
			if l != lv[0] {
				return narrow[l]
			}
		}
	}
	nc := r.Range(1, 4)
	var cs []*c02Client
	var steps []c02Step
	for i := 0; i < nc; i++ {
		cl := b.Attach(fmt.Sprintf("c%d", i), nil)
		rc, err := cl.Connect(fmt.Sprintf("cid-%d-%d", ci, i), "", nil)
		if err != nil || rc != 0 {
			rec.Inconclusive(fmt.Sprintf("connect: rc=%d err=%v", rc, err))
			return
		}
		cs = append(cs, &c02Client{cl: cl, subs: map[string][]string{}, ever: map[string][]string{}, links: map[string]string{}, linkMe0: map[string]bool{}})
	}
	defer func() {
		for _, c := range cs {
			c.cl.Abort()
		}
	}()
	var prev [][]string
	nontrivPub, failing, heldUnsub := 0, 0, 0
	seq := 0
	violated := false
	collisionSeen := func(c *c02Client) bool {
		codes := map[uint32]string{}
		for f, lv := range c.ever {
			code := xorCode(b.Contract, lv)
			if o, ok := codes[code]; ok && o != f {
				return true
			}
			codes[code] = f
		}
		return false
	}
	fail := func(kind, desc string, culprit *c02Client) {
		violated = true
		matcher := kind
		if culprit != nil && collisionSeen(culprit) {
			matcher = kind + "/xor-colliding-filters-on-one-connection"
		}
		rec.Violation(ci, matcher, fmt.Sprintf("mqtt=%v step %d: %s", mqtt, len(steps), desc), map[string]interface{}{"mqtt": mqtt, "clients": nc, "steps": steps})
	}
	// expectErrIn checks the publishes that arrived between SUBSCRIBE and SUBACK. The statement asks for "answered with
	// an error", not for a particular status: any emitter/error/ notification of the 4xx/5xx class counts, the documented
	// status is only recorded (counter error_status_as_documented), and nothing else may arrive.
	isErr := func(topic, payload string) (bool, int) {
		if topic != "emitter/error/" {
			return false, 0
		}
		var f struct {
			Status int `json:"status"`
		}
		if json.Unmarshal([]byte(payload), &f) != nil {
			return false, 0
		}
		return f.Status >= 400 && f.Status <= 599, f.Status
	}
	expectErrIn := func(between []Pub, status int, what string) {
		n, other := 0, 0
		for _, p := range between {
			if ok, st := isErr(p.Topic, p.Payload); ok {
				n++
				if st == status {
					rec.Inc("error_status_as_documented")
				}
			} else {
				other++
			}
		}
		if n < 1 || other != 0 {
			fail("error-reply", fmt.Sprintf("%s: expected an emitter/error/ notification (documented status %d) and nothing else before the SUBACK, got %v", what, status, between), nil)
		}
		failing++
		rec.Inc("failing_requests")
	}
	// expectErr checks that the client got an error notification (and nothing but error notifications).
	expectErr := func(c *c02Client, status int, what string) {
		errs := c.cl.TakeErrors()
		bad := len(errs) < 1
		for _, e := range errs {
			if e.Status < 400 || e.Status > 599 {
				bad = true
			} else if e.Status == status {
				rec.Inc("error_status_as_documented")
			}
		}
		if bad {
			fail("error-reply", fmt.Sprintf("%s: expected an emitter/error/ notification (documented status %d), got %+v", what, status, errs), nil)
		}
		failing++
		rec.Inc("failing_requests")
	}
	drainAll := func() map[int][]Pub {
		out := map[int][]Pub{}
		for i, c := range cs {
			p, err := c.cl.Take()
			if err != nil {
				fail("stream", err.Error(), c)
			}
			out[i] = p
		}
		return out
	}
	checkPublish := func(pubIdx int, lv []string, payload string, me0 bool) {
		got := drainAll()
		topic := chanStr(lv)
		nonEmpty := false
		for i, c := range cs {
			want := 0
			for _, f := range c.subs {
				if refMatch(mqtt, f, lv) {
					want = 1
					break
				}
			}
			if me0 && i == pubIdx {
				want = 0
			}
			if want == 1 {
				nonEmpty = true
			}
			cnt := 0
			for _, p := range got[i] {
				if p.Topic == "emitter/error/" {
					fail("unexpected-error", fmt.Sprintf("client %d got an error notification after an accepted publish: %s", i, p.Payload), c)
					continue
				}
				if p.Topic != topic || p.Payload != payload {
					fail("altered-or-foreign-message", fmt.Sprintf("client %d received topic=%q payload=%q while only %q/%q was published", i, p.Topic, p.Payload, topic, payload), c)
					continue
				}
				cnt++
			}
			rec.Inc("delivery_comparisons")
			if cnt != want {
				kind := "missing-delivery"
				if cnt > want {
					kind = "extra-delivery"
				}
				var fl []string
				for f := range c.subs {
					fl = append(fl, f)
				}
				sort.Strings(fl)
				fail(kind, fmt.Sprintf("publish to %s (me0=%v by client %d): client %d holds %v, expected %d copies, received %d", topic, me0, pubIdx, i, fl, want, cnt), c)
			}
		}
		if nonEmpty {
			nontrivPub++
			rec.Inc("publishes_with_receivers")
		}
	}

	for s := 0; s < 60 && !violated; s++ {
		i := r.Intn(nc)
		c := cs[i]
		x := r.Intn(100)
		switch {
		case x < 28: // subscribe
			lv := c02GenLevels(r, prev, true, mqtt)
			prev = append(prev, lv)
			mode := r.Intn(100)
			topic := chanStr(lv)
			switch {
			case mode < 78:
				c.ever[topic] = lv
				steps = append(steps, c02Step{Op: "sub", Client: i, Arg: topic})
				rc, between, err := c.cl.Subscribe(keyFor(lv) + "/" + topic)
				if err != nil {
					fail("no-reply", "subscribe: "+err.Error(), c)
					break
				}
				if rc == 0x80 {
					fail("valid-subscribe-refused", "SUBACK 0x80 for "+topic, c)
					break
				}
				if len(between) != 0 {
					fail("unexpected-replay", fmt.Sprintf("messages before SUBACK without load permission: %v", between), c)
				}
				c.subs[topic] = lv
				rec.Inc("subscribes")
			case mode < 82:
				steps = append(steps, c02Step{Op: "sub-key-of-another-target", Client: i, Arg: topic, Expect: "401"})
				rc, btw, err := c.cl.Subscribe(keyNotFor(lv) + "/" + topic)
				if err != nil || rc != 0x80 {
					fail("bad-subscribe-accepted", fmt.Sprintf("subscribe to %s with a key issued for another channel: rc=%#x err=%v", topic, rc, err), c)
					break
				}
				expectErrIn(btw, 401, "subscribe with a key issued for another channel")
			case mode < 86:
				steps = append(steps, c02Step{Op: "sub-writeonly-key", Client: i, Arg: topic, Expect: "401"})
				rc, btw, err := c.cl.Subscribe(kWrite + "/" + topic)
				if err != nil || rc != 0x80 {
					fail("bad-subscribe-accepted", fmt.Sprintf("subscribe with write-only key: rc=%#x err=%v", rc, err), c)
					break
				}
				expectErrIn(btw, 401, "subscribe with write-only key")
			case mode < 93:
				steps = append(steps, c02Step{Op: "sub-garbage-key", Client: i, Arg: topic, Expect: "401"})
				rc, btw, err := c.cl.Subscribe(kGarbage + "/" + topic)
				if err != nil || rc != 0x80 {
					fail("bad-subscribe-accepted", fmt.Sprintf("subscribe with garbage key: rc=%#x err=%v", rc, err), c)
					break
				}
				expectErrIn(btw, 401, "subscribe with garbage key")
			default:
				bad := "!" + topic // a character outside the channel alphabet: unparsable
				steps = append(steps, c02Step{Op: "sub-unparsable", Client: i, Arg: bad, Expect: "400"})
				rc, btw, err := c.cl.Subscribe(kAll + "/" + bad)
				if err != nil || rc != 0x80 {
					fail("bad-subscribe-accepted", fmt.Sprintf("subscribe to unparsable channel: rc=%#x err=%v", rc, err), c)
					break
				}
				expectErrIn(btw, 400, "subscribe to unparsable channel")
			}
		case x < 45: // unsubscribe
			var lv []string
			held := false
			if len(c.subs) > 0 && r.Chance(70) {
				keys := make([]string, 0, len(c.subs))
				for k := range c.subs {
					keys = append(keys, k)
				}
				sort.Strings(keys)
				lv = c.subs[keys[r.Intn(len(keys))]]
				held = true
			} else {
				lv = c02GenLevels(r, prev, true, mqtt)
			}
			topic := chanStr(lv)
			if r.Chance(88) {
				c.ever[topic] = lv
				steps = append(steps, c02Step{Op: "unsub", Client: i, Arg: topic})
				if err := c.cl.Unsubscribe(kAll + "/" + topic); err != nil {
					fail("no-reply", "unsubscribe: "+err.Error(), c)
					break
				}
				if _, ok := c.subs[topic]; ok && held {
					heldUnsub++
				}
				delete(c.subs, topic)
				rec.Inc("unsubscribes")
				if e := c.cl.TakeErrors(); len(e) != 0 {
					fail("unexpected-error", fmt.Sprintf("error notification on a valid unsubscribe: %+v", e), c)
				}
			} else {
				steps = append(steps, c02Step{Op: "unsub-garbage-key", Client: i, Arg: topic, Expect: "401"})
				if err := c.cl.Unsubscribe(kGarbage + "/" + topic); err != nil {
					fail("no-reply", "unsubscribe: "+err.Error(), c)
					break
				}
				expectErr(c, 401, "unsubscribe with garbage key")
			}
		case x < 55: // link
			lv := c02GenLevels(r, prev, false, mqtt)
			name := r.Pick("l1", "l2", "q", "Z9")
			autosub := r.Chance(50)
			topic := chanStr(lv)
			linkMe0 := r.Chance(35) // the shortcut is registered with the self-exclusion option
			reqChan := topic
			if linkMe0 {
				reqChan += "?me=0"
			}
			steps = append(steps, c02Step{Op: fmt.Sprintf("link(sub=%v)", autosub), Client: i, Arg: name + "=" + reqChan})
			rep, err := c.cl.Request("link", map[string]interface{}{"name": name, "key": kAll, "channel": reqChan, "subscribe": autosub})
			if err != nil || rep.Status != 200 {
				fail("link-refused", fmt.Sprintf("link request: %v %+v", err, rep), c)
				break
			}
			c.links[name] = topic
			c.linkMe0[name] = linkMe0
			if autosub {
				c.subs[topic] = lv
				c.ever[topic] = lv
			}
			prev = append(prev, lv)
			rec.Inc("links")
		default: // publish
			seq++
			payload := fmt.Sprintf("c%d-%d", i, seq)
			mode := r.Intn(100)
			lv := c02GenLevels(r, prev, false, mqtt)
			topic := chanStr(lv)
			switch {
			case mode < 60:
				me0 := r.Chance(30)
				full := keyFor(lv) + "/" + topic
				if me0 {
					full += "?me=0"
				}
				steps = append(steps, c02Step{Op: "pub", Client: i, Arg: topic + fmt.Sprintf(" me0=%v %s", me0, payload)})
				if _, err := c.cl.Publish(full, []byte(payload), false); err != nil {
					fail("no-reply", "publish: "+err.Error(), c)
					break
				}
				rec.Inc("publishes")
				checkPublish(i, lv, payload, me0)
			case mode < 72 && len(c.links) > 0: // through a link
				names := make([]string, 0, len(c.links))
				for k := range c.links {
					names = append(names, k)
				}
				sort.Strings(names)
				nm := names[r.Intn(len(names))]
				tl := strings.Split(strings.TrimSuffix(c.links[nm], "/"), "/")
				steps = append(steps, c02Step{Op: "pub-link", Client: i, Arg: nm + "->" + c.links[nm] + " " + payload})
				if _, err := c.cl.Publish(nm, []byte(payload), false); err != nil {
					fail("no-reply", "publish: "+err.Error(), c)
					break
				}
				rec.Inc("publishes_via_link")
				checkPublish(i, tl, payload, c.linkMe0[nm])
			case mode < 77:
				steps = append(steps, c02Step{Op: "pub-key-of-another-target", Client: i, Arg: topic, Expect: "401"})
				if _, err := c.cl.Publish(keyNotFor(lv)+"/"+topic, []byte(payload), false); err != nil {
					fail("no-reply", "publish: "+err.Error(), c)
					break
				}
				expectErr(c, 401, "publish with a key issued for another channel")
				checkNothing(cs, fail)
			case mode < 81:
				steps = append(steps, c02Step{Op: "pub-readonly-key", Client: i, Arg: topic, Expect: "401"})
				if _, err := c.cl.Publish(kRead+"/"+topic, []byte(payload), false); err != nil {
					fail("no-reply", "publish: "+err.Error(), c)
					break
				}
				expectErr(c, 401, "publish with read-only key")
				checkNothing(cs, fail)
			case mode < 87:
				w := append(append([]string(nil), lv...), "+")
				steps = append(steps, c02Step{Op: "pub-wildcard", Client: i, Arg: chanStr(w), Expect: "403"})
				if _, err := c.cl.Publish(kAll+"/"+chanStr(w), []byte(payload), false); err != nil {
					fail("no-reply", "publish: "+err.Error(), c)
					break
				}
				expectErr(c, 403, "publish to wildcard channel")
				checkNothing(cs, fail)
			case mode < 94:
				steps = append(steps, c02Step{Op: "pub-unknown-link", Client: i, Arg: "zz", Expect: "400"})
				if _, ok := c.links["zz"]; ok {
					break
				}
				if _, err := c.cl.Publish("zz", []byte(payload), false); err != nil {
					fail("no-reply", "publish: "+err.Error(), c)
					break
				}
				expectErr(c, 400, "publish through unknown link")
				checkNothing(cs, fail)
			default:
				steps = append(steps, c02Step{Op: "pub-garbage-key", Client: i, Arg: topic, Expect: "401"})
				if _, err := c.cl.Publish(kGarbage+"/"+topic, []byte(payload), false); err != nil {
					fail("no-reply", "publish: "+err.Error(), c)
					break
				}
				expectErr(c, 401, "publish with garbage key")
				checkNothing(cs, fail)
			}
		}
	}
	// final sweep: one publish per channel of the small alphabet closure touched by the case
	if !violated {
		seen := map[string]bool{}
		for _, lv := range prev {
			lit := true
			for _, l := range lv {
				if l == "+" || l == "#" {
					lit = false
				}
			}
			if !lit || seen[chanStr(lv)] {
				continue
			}
			seen[chanStr(lv)] = true
			seq++
			payload := fmt.Sprintf("final-%d", seq)
			steps = append(steps, c02Step{Op: "pub", Client: 0, Arg: chanStr(lv) + " " + payload})
			if _, err := cs[0].cl.Publish(kAll+"/"+chanStr(lv), []byte(payload), false); err != nil {
				fail("no-reply", "publish: "+err.Error(), cs[0])
				break
			}
			rec.Inc("publishes")
			checkPublish(0, lv, payload, false)
			if violated {
				break
			}
		}
	}
	h := []interface{}{mqtt, nc}
	for _, s := range steps {
		h = append(h, s.Op, s.Client, s.Arg)
	}
	rec.Case(vk.Hash(h...), nontrivPub >= 3 && failing >= 1 && heldUnsub >= 1)
	if rec.WantSample() {
		k := len(steps)
		if k > 14 {
			k = 14
		}
		rec.Sample(map[string]interface{}{"case": ci, "mqtt": mqtt, "clients": nc, "first_steps": steps[:k], "steps": len(steps), "publishes_with_receivers": nontrivPub})
	}
}

// checkNothing asserts that a refused publish delivered nothing to anyone.
func checkNothing(cs []*c02Client, fail func(string, string, *c02Client)) {
	for i, c := range cs {
		p, err := c.cl.Take()
		if err != nil {
			fail("stream", err.Error(), c)
		}
		if len(p) != 0 {
			fail("refused-publish-delivered", fmt.Sprintf("client %d received %v after a refused publish", i, p), c)
		}
	}
}
