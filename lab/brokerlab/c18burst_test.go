//go:build verif

// C18, concurrent part: per-connection order of presence notifications under a burst that
// overflows the notification queue (many pipelined producers, watchers behind slow sockets).
package brokerlab

import (
	"encoding/json"
	"fmt"
	"net"
	"sync"
	"testing"
	"time"

	"github.com/emitter-io/emitter/verif/lab/fakenet"
	"github.com/emitter-io/emitter/verif/lab/mqttref"
	"github.com/emitter-io/emitter/verif/lab/vk"
)

func TestC18Burst(t *testing.T) {
	rec := vk.New("C18", "burst")
	defer rec.Finish(t)
	rec.Rule("case = one burst on a real broker: 6-10 producer connections each pipelining 100-200 SUBSCRIBE/UNSUBSCRIBE pairs on distinct channels under a watched channel (requests written without waiting for acknowledgements), " +
		"2-4 watchers behind sockets whose writes take ~0.3 ms so that the 100-slot notification queue overflows and Notify blocks; after every acknowledgement has been read and the logical queue barrier, " +
		"each watcher must hold, for every producer connection, exactly its transitions in program order (subscribe c0, unsubscribe c0, subscribe c1, ...), once each; non-trivial = every case; distinct = (parameters, case)")
	n := vk.N(6, 120)
	for ci := 0; ci < n; ci++ {
		if vk.Mine(ci) {
			runC18Burst(rec, ci)
		}
	}
}

func runC18Burst(rec *vk.Rec, ci int) {
	r := vk.NewRand(vk.Seed(), "C18burst", ci)
	b, err := NewBroker(Opts{})
	if err != nil {
		rec.Inconclusive(err.Error())
		return
	}
	defer b.Close()
	key := b.MustKey("#/", Perms("rwp"))
	nw, np, pairs := r.Range(2, 4), r.Range(6, 10), r.Range(100, 200)
	var watchers []*Client
	for i := 0; i < nw; i++ {
		w := b.Attach(fmt.Sprintf("w%d", i), func(sv net.Conn) net.Conn {
			if fc, ok := sv.(*fakenet.Conn); ok {
				fc.SetWriteHook(func(int) { time.Sleep(300 * time.Microsecond) })
			}
			return sv
		})
		if rc, err := w.Connect(w.Name, "", nil); err != nil || rc != 0 {
			rec.Inconclusive("watcher connect")
			return
		}
		tr := true
		if rep, err := w.Request("presence", map[string]interface{}{"key": key, "channel": "room/", "status": false, "changes": &tr}); err != nil || rep.Status != 200 {
			rec.Inconclusive("watch")
			return
		}
		watchers = append(watchers, w)
	}
	helper := b.Attach("helper", nil)
	helper.Connect("helper", "", nil)
	type prod struct {
		c  *Client
		id string
	}
	var prods []*prod
	for i := 0; i < np; i++ {
		c := b.Attach(fmt.Sprintf("p%d", i), nil)
		c.Wait = 120 * time.Second
		if rc, err := c.Connect(c.Name, "", nil); err != nil || rc != 0 {
			rec.Inconclusive("producer connect")
			return
		}
		id, err := c.Me()
		if err != nil {
			rec.Inconclusive("me")
			return
		}
		prods = append(prods, &prod{c, id})
	}
	defer func() {
		for _, p := range prods {
			p.c.Abort()
		}
		for _, w := range watchers {
			w.Abort()
		}
		helper.Abort()
	}()
	var wg sync.WaitGroup
	var perr error
	var emu sync.Mutex
	for pi, p := range prods {
		wg.Add(1)
		go func(pi int, p *prod) {
			defer wg.Done()
			var buf []byte
			for j := 0; j < pairs; j++ {
				topic := fmt.Sprintf("%s/room/p%d/c%d/", key, pi, j)
				buf = append(buf, mqttref.Subscribe(uint16(2*j+1), topic)...)
				buf = append(buf, mqttref.Unsubscribe(uint16(2*j+2), topic)...)
				if len(buf) > 4000 {
					p.c.Send(buf)
					buf = nil
				}
			}
			p.c.Send(buf)
			// read 2*pairs acknowledgements
			acks := 0
			deadline := time.Now().Add(120 * time.Second)
			for acks < 2*pairs {
				raw := p.c.C.TakeAll()
				pk, rest, err := mqttref.Split(append(p.c.Pending, raw...))
				p.c.Pending = append([]byte(nil), rest...)
				if err != nil {
					emu.Lock()
					perr = err
					emu.Unlock()
					return
				}
				for _, x := range pk {
					if t := x[0] >> 4; t == 9 || t == 11 {
						acks++
					}
				}
				if acks >= 2*pairs {
					break
				}
				if _, eof, to := p.c.C.WaitData(time.Until(deadline)); eof || to {
					emu.Lock()
					perr = fmt.Errorf("producer %d: watchdog waiting for acknowledgements (%d of %d)", pi, acks, 2*pairs)
					emu.Unlock()
					return
				}
			}
		}(pi, p)
	}
	wg.Wait()
	if perr != nil {
		rec.Inconclusive(perr.Error())
		return
	}
	if err := b.PresenceBarrier(helper, key, ci+1); err != nil {
		rec.Inconclusive("barrier: " + err.Error())
		return
	}
	want := map[string]int{}
	for _, p := range prods {
		want[p.id] = 0
	}
	pidx := map[string]int{}
	for i, p := range prods {
		pidx[p.id] = i
	}
	for wi, w := range watchers {
		// the watcher's socket is slow: the last notifications may still be inside Write; the barrier guarantees they
		// have been handed to the transport, and the transport appends synchronously after its delay
		pubs, err := w.Take()
		if err != nil {
			rec.Violation(ci, "burst/stream", err.Error(), nil)
			return
		}
		next := make([]int, len(prods)) // next expected transition index per producer (2*j = subscribe cj, 2*j+1 = unsubscribe cj)
		total := 0
		for _, p := range pubs {
			if p.Topic != "emitter/presence/" {
				continue
			}
			var n c08Note
			if json.Unmarshal([]byte(p.Payload), &n) != nil {
				continue
			}
			pi, ok := pidx[n.Who.ID]
			if !ok {
				continue
			}
			j := next[pi] / 2
			ev := "subscribe"
			if next[pi]%2 == 1 {
				ev = "unsubscribe"
			}
			exp := fmt.Sprintf("room/p%d/c%d/", pi, j)
			total++
			if n.Event != ev || n.Channel != exp {
				rec.Violation(ci, "burst/per-connection-order", fmt.Sprintf("watcher %d: connection of producer %d: expected '%s %s' next, received '%s %s' (%d producers x %d pairs, %d watchers)", wi, pi, ev, exp, n.Event, n.Channel, np, pairs, nw),
					map[string]interface{}{"producers": np, "pairs": pairs, "watchers": nw})
				return
			}
			next[pi]++
		}
		for pi := range next {
			if next[pi] != 2*pairs {
				rec.Violation(ci, "burst/notifications-missing", fmt.Sprintf("watcher %d received %d of %d transitions of producer %d", wi, next[pi], 2*pairs, pi), nil)
				return
			}
		}
		rec.Add("burst_notifications_checked", int64(total))
	}
	rec.Case(vk.Hash("burst", nw, np, pairs, ci), true)
	if rec.WantSample() {
		rec.Sample(map[string]interface{}{"case": ci, "watchers": nw, "producers": np, "pairs_per_producer": pairs, "notifications_per_watcher": np * pairs * 2})
	}
}
