//go:build verif

// C11 part "registry" — "only a master key of an ALLOWED contract can mint keys" when the contracts come from a remote registry
// (the HTTP contract provider: contracts are fetched on first use, cached, and refreshed periodically). A local registry
// (httptest) serves the broker's own contract and flips it between allowed and refused; after every flip the monitor waits
// until the registry has answered two further requests for that contract - the refresh that fetched the new state has then
// stored it (the store follows the fetch, the next fetch follows the store) - and then key generation, link extension and
// Authorize must follow the registry's last answer. The wait is bounded by a watchdog whose expiry is inconclusive.
package brokerlab

import (
	"fmt"
	"net/http"
	"net/http/httptest"
	"sync"
	"sync/atomic"
	"testing"
	"time"

	"github.com/emitter-io/emitter/internal/security"
	"github.com/emitter-io/emitter/verif/lab/vk"
)

func TestC11Registry(t *testing.T) {
	rec := vk.New("C11", "registry")
	defer rec.Finish(t)
	rec.Rule("case = one real broker (licence v1/v2/v3) whose contracts come from a local HTTP registry (refresh every 25 ms) serving the broker's own contract; the registry flips the contract between allowed and refused 6-10 times; after two further registry answers following each flip: emitter/keygen/ with the master key, link extension with an extendable key and Service.Authorize with an ordinary key succeed exactly while the registry's last answer was 'allowed'; " +
		"non-trivial = cases with >=2 refusals and >=2 re-admissions observed; distinct = (licence, seed, case)")
	n := vk.N(6, 120)
	for ci := 0; ci < n; ci++ {
		if !vk.Mine(ci) {
			continue
		}
		r := vk.NewRand(vk.Seed(), "C11registry", ci)
		lic := 1 + ci%3
		var mu sync.Mutex
		state := 1 // allowed
		var served int64
		var contractID, sign uint32
		ts := httptest.NewServer(http.HandlerFunc(func(w http.ResponseWriter, q *http.Request) {
			mu.Lock()
			st := state
			mu.Unlock()
			fmt.Fprintf(w, `{"id":%d,"sign":%d,"master":1,"state":%d}`, atomic.LoadUint32(&contractID), atomic.LoadUint32(&sign), st)
			atomic.AddInt64(&served, 1)
		}))
		b, err := NewBroker(Opts{LicenseVersion: lic, ContractURL: ts.URL + "/", ContractInterval: 25})
		if err != nil {
			ts.Close()
			rec.Inconclusive(err.Error())
			continue
		}
		atomic.StoreUint32(&contractID, b.Lic.Contract())
		atomic.StoreUint32(&sign, b.Lic.Signature())
		ext := b.RawKey(func(k security.Key) { k.SetPermissions(Perms("rwe")); k.SetTarget("a/b/") })
		ord := b.RawKey(func(k security.Key) { k.SetPermissions(Perms("rw")); k.SetTarget("a/#/") })
		cl := b.Attach("reg", nil)
		cl.Connect("reg", "", nil)
		violated, incon := false, ""
		refusals, readmissions := 0, 0
		var trace []string
		check := func(allowed bool, when string) {
			rep, err := cl.Request("keygen", map[string]interface{}{"key": b.Master, "channel": "x/y/", "type": "rw", "ttl": 0})
			if err != nil {
				incon = "keygen: " + err.Error()
				return
			}
			minted := rep.Status == 200
			rep2, err := cl.Request("keygen", map[string]interface{}{"key": ext, "channel": "a/b/", "type": "rw", "ttl": 0})
			if err != nil {
				incon = "keygen: " + err.Error()
				return
			}
			extended := rep2.Status == 200
			_, _, authorized := b.Svc.Authorize(security.ParseChannel([]byte(ord+"/a/c/")), security.AllowRead)
			rec.Inc("registry_state_checks")
			trace = append(trace, fmt.Sprintf("%s: registry says allowed=%v -> minted=%v extended=%v authorized=%v", when, allowed, minted, extended, authorized))
			if minted != allowed || extended != allowed || authorized != allowed {
				violated = true
				kind := "key-issued-for-refused-contract"
				if allowed {
					kind = "allowed-contract-refused"
				}
				rec.Violation(ci, "registry/"+kind, fmt.Sprintf("licence v%d, %s: the registry's last two answers said allowed=%v but keygen with the master key -> %v, link extension -> %v, Authorize with an ordinary key -> %v", lic, when, allowed, minted, extended, authorized), map[string]interface{}{"trace": trace})
			}
		}
		check(true, "start")
		flips := r.Range(6, 10)
		allowed := true
		for f := 0; f < flips && !violated && incon == ""; f++ {
			allowed = !allowed
			mu.Lock()
			if allowed {
				state = 1
			} else {
				state = 2
			}
			mu.Unlock()
			mark := atomic.LoadInt64(&served)
			deadline := time.Now().Add(90 * time.Second)
			for atomic.LoadInt64(&served) < mark+3 && time.Now().Before(deadline) {
				time.Sleep(5 * time.Millisecond)
			}
			if atomic.LoadInt64(&served) < mark+3 {
				incon = "the provider did not refresh the contract within the watchdog"
				break
			}
			check(allowed, fmt.Sprintf("after flip %d", f+1))
			if allowed {
				readmissions++
			} else {
				refusals++
			}
		}
		cl.Abort()
		b.Close()
		ts.Close()
		rec.Case(vk.Hash("registry", lic, vk.Seed(), ci), refusals >= 2 && readmissions >= 2)
		if incon != "" && !violated {
			rec.Inconclusive(incon)
		}
		if rec.WantSample() {
			rec.Sample(map[string]interface{}{"licence": lic, "flips": flips, "trace": trace[:minInt(4, len(trace))]})
		}
	}
}
