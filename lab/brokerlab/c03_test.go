//go:build verif

// C03 — channel keys authorize exactly what they were issued for (DESIGN §5 C03).
// Exhaustive over the bounded grammar: Service.Authorize vs a reference predicate over strings.
package brokerlab

import (
	"fmt"
	"strings"
	"testing"
	"time"

	"github.com/emitter-io/emitter/internal/security"
	"github.com/emitter-io/emitter/verif/lab/vk"
)

var c03Alpha = []string{"a", "b", "c", "+"}

func c03Enum(maxDepth int) [][]string {
	var out [][]string
	var rec func(cur []string)
	rec = func(cur []string) {
		if len(cur) > 0 {
			out = append(out, append([]string(nil), cur...))
		}
		if len(cur) == maxDepth {
			return
		}
		for _, l := range c03Alpha {
			rec(append(cur, l))
		}
	}
	rec(nil)
	return out
}

type c03Target struct {
	levels []string
	hash   bool // "#/" target
}

func (t c03Target) String() string {
	s := ""
	if len(t.levels) > 0 {
		s = strings.Join(t.levels, "/") + "/"
	}
	if t.hash {
		s += "#/"
	}
	return s
}

// covers is the statement: equal levels where the target has literals, any level where it has
// '+', same depth for exact targets, at least that depth for '#/' targets, wildcard levels in the
// request only where the target is itself wildcard or beyond its depth.
func covers(t c03Target, req []string) bool {
	n := len(t.levels)
	if t.hash {
		if len(req) < n {
			return false
		}
	} else if len(req) != n {
		return false
	}
	for i := 0; i < n; i++ {
		if t.levels[i] == "+" {
			continue
		}
		if req[i] != t.levels[i] {
			return false // includes '+' or '#' in the request against a literal
		}
	}
	return true
}

func c03Shape(t c03Target) string {
	kind := "exact"
	if t.hash {
		kind = "hash"
	}
	if len(t.levels) == 0 {
		return kind + ":root"
	}
	last := "last-literal"
	if t.levels[len(t.levels)-1] == "+" {
		last = "last-plus"
	}
	lit := "all-plus"
	for _, l := range t.levels {
		if l != "+" {
			lit = "some-literal"
		}
	}
	return kind + ":" + last + ":" + lit
}

var c03Perms = []struct {
	name string
	bit  uint8
}{{"read", security.AllowRead}, {"write", security.AllowWrite}, {"store", security.AllowStore}, {"load", security.AllowLoad}, {"presence", security.AllowPresence}, {"extend", security.AllowExtend}}

func TestC03(t *testing.T) {
	rec := vk.New("C03", "grammar")
	defer rec.Finish(t)
	thorough := vk.Tier() == "thorough"
	td, rd := 3, 4
	if thorough {
		td, rd = 4, 5
	}
	rec.Rule(fmt.Sprintf("exhaustive over the bounded grammar: key targets = levels over {a,b,c,+} of depth 1..%d, exact or '#/', plus '#/'; requests = levels over {a,b,c,+} of depth 1..%d, plus a trailing '#' level against '#/' targets; "+
		"x licence versions 1,2,3 (keys minted through keygen.CreateKey and, identically, built raw and encrypted with the licence cipher); plus permission masks (all 256 thorough / 24 quick) x 6 operations x expiry {none,-1d,+1d} and foreign contract / signature / master id / garbage keys on a covering pair set; "+
		"each case = one Service.Authorize call compared with the reference predicate; plus, for every permission mask, real SUBSCRIBE / PUBLISH / emitter/history/ / emitter/presence/ requests (accepted iff the mask has the permission the operation needs); non-trivial = every case (each is a distinct (licence,key,channel,operation) tuple); a request ending in '#' against an exact target is asserted only where counting and not counting the '#' as a level give the same answer", td, rd))
	rec.Exhaustive(true)
	targets := []c03Target{{nil, true}}
	for _, l := range c03Enum(td) {
		targets = append(targets, c03Target{l, false}, c03Target{l, true})
	}
	reqs := c03Enum(rd)
	var hashReqs [][]string
	for _, l := range c03Enum(rd - 1) {
		hashReqs = append(hashReqs, append(append([]string(nil), l...), "#"))
	}
	caseNo := 0
	for lic := 1; lic <= 3; lic++ {
		b, err := NewBroker(Opts{LicenseVersion: lic})
		if err != nil {
			rec.Inconclusive(err.Error())
			continue
		}
		check := func(key, keyDesc string, t c03Target, req []string, perm int, want bool, extra string) {
			caseNo++
			if !vk.Mine(caseNo) {
				return
			}
			chs := strings.Join(req, "/") + "/"
			ch := security.ParseChannel([]byte(key + "/" + chs))
			if ch.ChannelType == security.ChannelInvalid {
				rec.Note("generator produced an unparsable request " + chs)
				return
			}
			_, _, got := b.Svc.Authorize(ch, c03Perms[perm].bit)
			rec.Case(vk.Hash(lic, keyDesc, chs, perm, extra), true)
			if got != want {
				dir := "refused-though-covered"
				if got {
					dir = "allowed-though-not-covered"
				}
				m := fmt.Sprintf("%s/target-shape=%s", dir, c03Shape(t))
				if extra != "" {
					m = dir + "/" + extra
				}
				rec.Violation(caseNo, m, fmt.Sprintf("licence v%d key{%s} request %s op %s: Authorize=%v, reference=%v", lic, keyDesc, chs, c03Perms[perm].name, got, want),
					map[string]interface{}{"licence": lic, "key": keyDesc, "target": t.String(), "request": chs, "operation": c03Perms[perm].name, "authorize": got, "reference": want})
			}
			if rec.WantSample() && want && len(req) > 1 {
				rec.Sample(map[string]interface{}{"licence": lic, "key": keyDesc, "request": chs, "operation": c03Perms[perm].name, "authorize": got, "reference": want})
			}
		}
		// (1) target x request, all permissions, no expiry
		for ti, t := range targets {
			var key string
			desc := "target=" + t.String() + " perms=rwslpe"
			if ti%2 == 0 {
				k, err := b.Key(t.String(), Perms("rwslpe"), time.Unix(0, 0))
				if err != nil {
					rec.Note("keygen refused target " + t.String() + ": " + err.Error())
					continue
				}
				key = k
			} else {
				key = b.RawKey(func(k security.Key) {
					k.SetPermissions(Perms("rwslpe"))
					if err := k.SetTarget(t.String()); err != nil {
						panic(err)
					}
				})
			}
			for _, rq := range reqs {
				check(key, desc, t, rq, (ti+len(rq))%2, covers(t, rq), "")
			}
			for _, rq := range hashReqs {
				if t.hash {
					check(key, desc, t, rq, 0, covers(t, rq), "")
					continue
				}
				// exact target, request ending in '#': the statement does not say whether the '#' counts as a
				// level; assert only where both readings agree
				a, bb := covers(t, rq), covers(t, rq[:len(rq)-1])
				if a == bb {
					check(key, desc, t, rq, 0, a, "")
				}
			}
			rec.Inc("keys_minted")
		}
		// (2) masks x operations x expiry on a covering pair set
		pairs := []struct {
			t   c03Target
			req []string
		}{
			{c03Target{[]string{"a", "b"}, false}, []string{"a", "b"}},
			{c03Target{[]string{"a"}, true}, []string{"a", "c", "b"}},
			{c03Target{nil, true}, []string{"b"}},
			{c03Target{[]string{"+", "b"}, false}, []string{"c", "b"}},
			{c03Target{[]string{"a", "b"}, false}, []string{"a", "c"}}, // not covered
		}
		var masks []int
		if thorough {
			for m := 0; m < 256; m++ {
				masks = append(masks, m)
			}
		} else {
			masks = []int{0, 1, 2, 4, 8, 16, 32, 64, 128, 3, 6, 12, 24, 48, 96, 126, 127, 254, 255, 2 | 16, 4 | 8, 2 | 64, 4 | 64, 32 | 2}
		}
		now := time.Now()
		exps := []struct {
			name string
			t    time.Time
			ok   bool
		}{{"none", time.Unix(0, 0), true}, {"-1d", now.Add(-24 * time.Hour), false}, {"+1d", now.Add(24 * time.Hour), true}}
		for _, p := range pairs {
			for _, m := range masks {
				for _, ex := range exps {
					key := b.RawKey(func(k security.Key) {
						k.SetPermissions(uint8(m))
						k.SetExpires(ex.t)
						k.SetTarget(p.t.String())
					})
					for pi, pm := range c03Perms {
						want := ex.ok && uint8(m)&pm.bit == pm.bit && covers(p.t, p.req)
						check(key, fmt.Sprintf("target=%s mask=%#02x expiry=%s", p.t.String(), m, ex.name), p.t, p.req, pi, want, fmt.Sprintf("mask-expiry"))
					}
				}
			}
		}
		// (3) keys of another contract / signature / master id, garbage
		t0 := c03Target{[]string{"a"}, true}
		foreign := []struct {
			name string
			f    func(k security.Key)
		}{
			{"foreign-contract", func(k security.Key) { k.SetContract(k.Contract() + 1) }},
			{"foreign-contract-bitflip", func(k security.Key) { k.SetContract(k.Contract() ^ 0x80000000) }},
			{"wrong-signature", func(k security.Key) { k.SetSignature(k.Signature() ^ 1) }},
			{"wrong-master-id", func(k security.Key) { k.SetMaster(k.Master() + 1) }},
		}
		for _, fo := range foreign {
			key := b.RawKey(func(k security.Key) {
				k.SetPermissions(Perms("rwslpe"))
				k.SetTarget(t0.String())
				fo.f(k)
			})
			for pi := range c03Perms {
				check(key, fo.name, t0, []string{"a", "b"}, pi, false, fo.name)
			}
		}
		for gi, g := range []string{strings.Repeat("A", 32), "short", strings.Repeat("-", 32), strings.Repeat("A", 31) + "!"} {
			check(g, fmt.Sprintf("garbage-%d", gi), t0, []string{"a", "b"}, 0, false, "garbage-key")
		}
		// key issued under another licence of the same version
		if ob, err := NewBroker(Opts{LicenseVersion: lic}); err == nil {
			ok2 := ob.MustKey("a/#/", Perms("rwslpe"))
			check(ok2, "key-of-another-licence", t0, []string{"a", "b"}, 0, false, "other-licence")
			ob.Close()
		}
		c03EntryPoints(rec, b, lic, &caseNo)
		b.Close()
	}
}

// c03EntryPoints: each operation needs its own permission at the real entry points (read to
// subscribe, write to publish, load for history, presence for presence), for every permission mask.
func c03EntryPoints(rec *vk.Rec, b *Broker, lic int, caseNo *int) {
	step := 1
	if vk.Tier() != "thorough" && lic != 3 {
		step = 5
	}
	cl := b.Attach("ep", nil)
	if rc, err := cl.Connect("ep", "", nil); err != nil || rc != 0 {
		rec.Inconclusive("entry points: connect")
		return
	}
	defer cl.Abort()
	for m := 0; m < 128; m += step {
		*caseNo++
		if !vk.Mine(*caseNo) {
			continue
		}
		mask := uint8(m) << 1
		key := b.RawKey(func(k security.Key) { k.SetPermissions(mask); k.SetTarget("a/#/") })
		ext := mask&security.AllowExtend != 0
		has := func(bit uint8) bool { return mask&bit != 0 }
		fail := func(op string, got, want bool) {
			dir := "refused-though-permitted"
			if got {
				dir = "accepted-without-permission"
			}
			rec.Violation(*caseNo, "entry-point/"+op+"/"+dir, fmt.Sprintf("licence v%d key mask %q (%#02x) target a/#/: %s on a/b/ accepted=%v, expected %v", lic, permString(mask), mask, op, got, want),
				map[string]interface{}{"licence": lic, "mask": permString(mask), "operation": op, "accepted": got, "expected": want})
		}
		// subscribe
		rc, _, err := cl.Subscribe(key + "/a/b/")
		if err != nil {
			rec.Inconclusive("entry points: " + err.Error())
			return
		}
		if got, want := rc != 0x80, has(security.AllowRead) && !ext; got != want {
			fail("subscribe", got, want)
		} else if got {
			cl.Unsubscribe(key + "/a/b/")
		}
		cl.Take()
		// publish
		cl.Publish(key+"/a/b/", []byte("x"), false)
		errs := cl.TakeErrors()
		if got, want := len(errs) == 0, has(security.AllowWrite) && !ext; got != want {
			fail("publish", got, want)
		}
		cl.Take()
		// history
		rep, err := cl.Request("history", map[string]interface{}{"key": key, "channel": key + "/a/b/"})
		if err != nil {
			rec.Inconclusive("entry points: " + err.Error())
			return
		}
		_, hasStatus := rep.Fields["status"] // a history response carries no status; an error reply does (one of 200 would be fine too)
		if got, want := !hasStatus || rep.Status == 200, has(security.AllowLoad); got != want {
			fail("history", got, want)
		}
		// presence
		rep, err = cl.Request("presence", map[string]interface{}{"key": key, "channel": "a/b/", "status": true})
		if err != nil {
			rec.Inconclusive("entry points: " + err.Error())
			return
		}
		if got, want := rep.Status == 200, has(security.AllowPresence) && !ext; got != want {
			fail("presence", got, want)
		}
		cl.Take()
		rec.Case(vk.Hash(lic, "entry", m), true)
		rec.Add("entry_point_requests", 4)
	}
}
