//go:build verif

// C03 part "history" — the answer to "may this key do this on this channel" is a function of the key and the
// channel only (DESIGN §10.5c-f). The grammar part asks Service.Authorize once per (key, channel, operation); here a
// pool of keys is presented again and again, interleaved with the operations that exercise whatever the broker
// remembers about keys: link-extension requests with extendable keys (valid and refused ones), key generation with
// the master key, subscribe / publish / unsubscribe through the real entry points, presentation of expired, foreign
// and garbage keys. After every operation Authorize is probed for several (key, channel, operation) triples and
// compared with the same reference predicate as the grammar part - a cache that hands out a shared decrypted key, is
// keyed by too little, or remembers a positive answer past what the key says shows up as a difference.
package brokerlab

import (
	"fmt"
	"strings"
	"testing"
	"time"

	"github.com/emitter-io/emitter/internal/security"
	"github.com/emitter-io/emitter/verif/lab/vk"
)

type c03PoolKey struct {
	key     string
	desc    string
	t       c03Target
	mask    uint8
	expired bool
	foreign bool
}

func (k *c03PoolKey) allows(req []string, bit uint8) bool {
	return !k.foreign && !k.expired && k.mask&bit == bit && covers(k.t, req)
}

func TestC03History(t *testing.T) {
	rec := vk.New("C03", "history")
	defer rec.Finish(t)
	rec.Rule("case = one seeded history on a real broker (licence v1/v2/v3): a pool of 10-16 keys (targets of depth 1-3 exact or '#/', random permission masks incl. extend, expiry none/+1d/-1d, foreign contract) presented repeatedly, interleaved with link-extension requests (emitter/keygen/ with an extendable key: valid, on another channel, with an expired key), master key generation, and SUBSCRIBE / PUBLISH / UNSUBSCRIBE with pool keys; " +
		"after every operation 6 Service.Authorize probes (the key just used first) are compared with the reference predicate of the grammar part, which depends on the key and the channel only; non-trivial = histories with >=1 successful extension and >=1 entry-point request; distinct = hash of the operation list")
	n := vk.N(90, 6000)
	for ci := 0; ci < n; ci++ {
		if !vk.Mine(ci) {
			continue
		}
		runC03History(rec, ci)
	}
}

func runC03History(rec *vk.Rec, ci int) {
	r := vk.NewRand(vk.Seed(), "C03hist", ci)
	lic := 1 + ci%3
	b, err := NewBroker(Opts{LicenseVersion: lic})
	if err != nil {
		rec.Inconclusive(err.Error())
		return
	}
	defer b.Close()
	lv := []string{"a", "b", "c"}
	randLevels := func(d int, wild bool) []string {
		var out []string
		for i := 0; i < d; i++ {
			if wild && r.Chance(20) {
				out = append(out, "+")
			} else {
				out = append(out, lv[r.Intn(len(lv))])
			}
		}
		return out
	}
	now := time.Now()
	var pool []*c03PoolKey
	np := r.Range(10, 16)
	for i := 0; i < np; i++ {
		k := &c03PoolKey{t: c03Target{randLevels(r.Range(1, 3), true), r.Bool()}}
		switch {
		case i < 4: // extendable keys on literal exact targets (what link extension is for)
			k.t = c03Target{randLevels(r.Range(1, 2), false), false}
			k.mask = uint8(r.Intn(64))<<1 | security.AllowExtend | security.AllowRead
		default:
			k.mask = uint8(r.Intn(128)) << 1
		}
		exp := time.Unix(0, 0)
		switch r.Intn(6) {
		case 0:
			exp, k.expired = now.Add(-24*time.Hour), true
		case 1:
			exp = now.Add(24 * time.Hour)
		}
		k.foreign = i >= 4 && r.Chance(20)
		k.desc = fmt.Sprintf("k%d{target=%s mask=%q expired=%v foreign=%v}", i, k.t.String(), permString(k.mask), k.expired, k.foreign)
		k.key = b.RawKey(func(x security.Key) {
			x.SetSalt(uint16(r.U32()))
			x.SetPermissions(k.mask)
			x.SetExpires(exp)
			if err := x.SetTarget(k.t.String()); err != nil {
				panic(err)
			}
			if k.foreign { // another contract, a wrong signature or another master id: never accepted, however often presented
				switch r.Intn(3) {
				case 0:
					x.SetContract(x.Contract() + 1 + uint32(r.Intn(5)))
				case 1:
					x.SetSignature(x.Signature() ^ (1 << uint(r.Intn(32))))
				default:
					x.SetMaster(x.Master() + 1 + uint16(r.Intn(3)))
				}
			}
		})
		pool = append(pool, k)
	}
	cl := b.Attach("h", nil)
	if rc, err := cl.Connect("h", "", nil); err != nil || rc != 0 {
		rec.Inconclusive("connect")
		return
	}
	defer cl.Abort()
	var steps []string
	violated := false
	probe := func(k *c03PoolKey, after string) {
		req := randLevels(r.Range(1, 4), r.Chance(10))
		if r.Chance(60) { // a channel the key is likely to cover
			req = nil
			for _, l := range k.t.levels {
				if l == "+" {
					l = lv[r.Intn(len(lv))]
				}
				req = append(req, l)
			}
			if k.t.hash || r.Chance(30) {
				req = append(req, randLevels(r.Range(0, 2), false)...)
			}
			if len(req) == 0 {
				req = randLevels(1, false)
			}
		}
		pi := r.Intn(len(c03Perms))
		chs := strings.Join(req, "/") + "/"
		ch := security.ParseChannel([]byte(k.key + "/" + chs))
		if ch.ChannelType == security.ChannelInvalid {
			return
		}
		_, _, got := b.Svc.Authorize(ch, c03Perms[pi].bit)
		want := k.allows(req, c03Perms[pi].bit)
		rec.Inc("authorize_probes")
		if got != want && !violated {
			violated = true
			dir := "refused-though-permitted"
			if got {
				dir = "allowed-though-not-permitted"
			}
			rec.Violation(ci, "history/"+dir, fmt.Sprintf("licence v%d, after %q: Authorize(%s, %s, %s)=%v, the reference predicate on the key's own fields says %v", lic, after, k.desc, chs, c03Perms[pi].name, got, want),
				map[string]interface{}{"licence": lic, "steps": append(append([]string(nil), steps...), fmt.Sprintf("probe %s %s %s -> %v (reference %v)", k.desc, chs, c03Perms[pi].name, got, want))})
		}
	}
	extensions, entries := 0, 0
	nsteps := 40
	for s := 0; s < nsteps && !violated; s++ {
		k := pool[r.Intn(len(pool))]
		if r.Chance(35) {
			k = pool[r.Intn(4)]
		}
		what := ""
		switch x := r.Intn(100); {
		case x < 30: // link extension
			chs := k.t.String()
			if r.Chance(20) {
				chs = strings.Join(randLevels(r.Range(1, 2), false), "/") + "/"
			}
			ty := []string{"rw", "r", "rwls", "w", "rwlspe", "", "l"}[r.Intn(7)]
			ttl := []int{0, 3600, 0, 60}[r.Intn(4)]
			rep, err := cl.Request("keygen", map[string]interface{}{"key": k.key, "channel": chs, "type": ty, "ttl": ttl})
			if err != nil {
				rec.Inconclusive("keygen: " + err.Error())
				return
			}
			what = fmt.Sprintf("extend with %s channel=%s type=%q ttl=%d -> %d", k.desc, chs, ty, ttl, rep.Status)
			if rep.Status == 200 {
				extensions++
			}
		case x < 40: // master key generation
			chs := strings.Join(randLevels(r.Range(1, 3), true), "/") + "/"
			rep, err := cl.Request("keygen", map[string]interface{}{"key": b.Master, "channel": chs, "type": "rwlsp", "ttl": []int{0, 600}[r.Intn(2)]})
			if err != nil {
				rec.Inconclusive("keygen: " + err.Error())
				return
			}
			what = fmt.Sprintf("keygen with the master key channel=%s -> %d", chs, rep.Status)
		case x < 60: // subscribe (+ unsubscribe) on the key's own channel
			var req []string
			for _, l := range k.t.levels {
				if l == "+" {
					l = "b"
				}
				req = append(req, l)
			}
			if len(req) == 0 {
				req = []string{"a"}
			}
			chs := strings.Join(req, "/") + "/"
			rc, _, err := cl.Subscribe(k.key + "/" + chs)
			if err != nil {
				rec.Inconclusive("subscribe: " + err.Error())
				return
			}
			what = fmt.Sprintf("subscribe with %s to %s -> %#x", k.desc, chs, rc)
			if rc != 0x80 {
				cl.Unsubscribe(k.key + "/" + chs)
			}
			cl.Take()
			cl.TakeErrors()
			entries++
		case x < 75: // publish
			var req []string
			for _, l := range k.t.levels {
				if l == "+" {
					l = "c"
				}
				req = append(req, l)
			}
			if len(req) == 0 {
				req = []string{"b"}
			}
			chs := strings.Join(req, "/") + "/"
			if _, err := cl.Publish(k.key+"/"+chs, []byte("x"), false); err != nil {
				rec.Inconclusive("publish: " + err.Error())
				return
			}
			errs := cl.TakeErrors()
			what = fmt.Sprintf("publish with %s to %s -> %d error replies", k.desc, chs, len(errs))
			cl.Take()
			entries++
		default:
			what = "probe only"
		}
		steps = append(steps, what)
		probe(k, what)
		for i := 0; i < 5; i++ {
			probe(pool[r.Intn(len(pool))], what)
		}
	}
	rec.Add("extensions_granted", int64(extensions))
	rec.Add("entry_point_requests", int64(entries))
	rec.Case(vk.Hash(lic, strings.Join(steps, ";")), extensions > 0 && entries > 0)
	if rec.WantSample() && extensions > 0 {
		rec.Sample(map[string]interface{}{"licence": lic, "keys": len(pool), "steps": steps[:minInt(6, len(steps))], "extensions_granted": extensions})
	}
}

func minInt(a, b int) int {
	if a < b {
		return a
	}
	return b
}
