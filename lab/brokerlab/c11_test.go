//go:build verif

// C11 — derived keys never exceed their parent or the request (DESIGN §5 C11).
package brokerlab

import (
	"fmt"
	"html"
	"net/http/httptest"
	"net/url"
	"regexp"
	"strings"
	"testing"
	"time"

	"github.com/emitter-io/emitter/internal/security"
	"github.com/emitter-io/emitter/verif/lab/mqttref"
	"github.com/emitter-io/emitter/verif/lab/vk"
)

func permString(m uint8) string {
	s := ""
	for _, p := range []struct {
		c string
		b uint8
	}{{"r", security.AllowRead}, {"w", security.AllowWrite}, {"s", security.AllowStore}, {"l", security.AllowLoad}, {"p", security.AllowPresence}, {"e", security.AllowExtend}, {"x", security.AllowExecute}} {
		if m&p.b != 0 {
			s += p.c
		}
	}
	return s
}

func TestC11(t *testing.T) {
	rec := vk.New("C11", "keygen")
	defer rec.Finish(t)
	thorough := vk.Tier() == "thorough"
	rec.Rule("case = one emitter/keygen/ request sent by a scripted client to a real broker: parent kind (master, extendable with a permission mask, ordinary, expired, foreign contract) x requested type string (subsets of rwslpex, junk) x ttl {0,1h,-1h,maxint32} x channel shape; " +
		"the returned key is decrypted with the licence cipher and compared field by field with the prediction, then used (Authorize on target, sibling, parent, child); part 2 = every entry point (SUBSCRIBE, PUBLISH, link auto-subscribe, presence, last will) with extendable keys; " +
		"non-trivial = requests that returned a key (fields checked) or exercised an entry point; distinct = (licence, parent, type, ttl, channel)")
	caseNo := 0
	for lic := 3; lic >= 1; lic-- {
		b, err := NewBroker(Opts{LicenseVersion: lic})
		if err != nil {
			rec.Inconclusive(err.Error())
			continue
		}
		cl := b.Attach("requester", nil)
		if rc, err := cl.Connect("requester", "", nil); err != nil || rc != 0 {
			rec.Inconclusive("connect")
			b.Close()
			continue
		}
		connID, err := cl.Me()
		if err != nil {
			rec.Inconclusive("me: " + err.Error())
			b.Close()
			continue
		}
		fail := func(kind, desc string, w map[string]interface{}) {
			w["licence"] = lic
			rec.Violation(caseNo, kind, fmt.Sprintf("licence v%d: %s", lic, desc), w)
		}
		// ---- type strings
		var types []string
		step := 1
		if !thorough {
			step = 9
			if lic != 3 {
				step = 21
			}
		}
		for m := 0; m < 128; m += step {
			types = append(types, permString(uint8(m)<<1))
		}
		types = append(types, "rwslpex", "rwZ!", "RW", "m", "rrww")
		ttls := []int32{0, 3600, -3600, 2147483647}
		if !thorough && lic != 3 {
			ttls = []int32{0, 3600}
		}
		// ---- creation with master-like parents
		type parent struct {
			name    string
			key     string
			mint    bool
			contract, sig uint32
			master  uint16
		}
		parents := []parent{
			{"master", b.Master, true, b.Lic.Contract(), b.Lic.Signature(), 1},
			{"expired-master", b.RawKey(func(k security.Key) { k.SetPermissions(security.AllowMaster); k.SetExpires(time.Now().Add(-time.Hour)) }), false, 0, 0, 0},
			{"foreign-contract-master", b.RawKey(func(k security.Key) { k.SetPermissions(security.AllowMaster); k.SetContract(k.Contract() + 1) }), false, 0, 0, 0},
			{"wrong-signature-master", b.RawKey(func(k security.Key) { k.SetPermissions(security.AllowMaster); k.SetSignature(k.Signature() ^ 0x10) }), false, 0, 0, 0},
			{"ordinary-rwslp", b.RawKey(func(k security.Key) { k.SetPermissions(Perms("rwslp")); k.SetTarget("a/#/") }), false, 0, 0, 0},
			{"master-plus-read", b.RawKey(func(k security.Key) { k.SetPermissions(security.AllowMaster | security.AllowRead); k.SetTarget("#/") }), false, 0, 0, 0},
			{"garbage", strings.Repeat("x", 32), false, 0, 0, 0},
		}
		creationChannels := []struct {
			ch    string
			valid bool
		}{{"a/", true}, {"a/b/", true}, {"a/+/", true}, {"a/#/", true}, {"#/", true}, {"a/b", false}, {"", false}, {"a/b/c/", true}}
		for _, p := range parents {
			for _, ty := range types {
				for _, ttl := range ttls {
					for _, cc := range creationChannels {
						caseNo++
						if !vk.Mine(caseNo) {
							continue
						}
						w := map[string]interface{}{"parent": p.name, "type": ty, "ttl": ttl, "channel": cc.ch}
						t0 := time.Now()
						rep, err := cl.Request("keygen", map[string]interface{}{"key": p.key, "channel": cc.ch, "type": ty, "ttl": ttl})
						t1 := time.Now()
						if err != nil {
							fail("no-reply", err.Error(), w)
							continue
						}
						got, _ := rep.Fields["key"].(string)
						issued := rep.Status == 200 && got != ""
						rec.Case(vk.Hash(lic, "create", p.name, ty, ttl, cc.ch), issued || !p.mint)
						rec.Inc("keygen_requests")
						if !p.mint || !cc.valid {
							if issued {
								fail("key-issued-by-non-master", fmt.Sprintf("parent %s channel %q: a key was issued: %s", p.name, cc.ch, rep.Raw), w)
							}
							continue
						}
						if !issued {
							fail("valid-keygen-refused", fmt.Sprintf("master key, channel %q type %q ttl %d refused: %s", cc.ch, ty, ttl, rep.Raw), w)
							continue
						}
						rec.Inc("keys_returned")
						k, err := b.Cipher.DecryptKey([]byte(got))
						if err != nil || len(k) != 24 {
							fail("returned-key-undecryptable", got, w)
							continue
						}
						want := Perms(ty)
						if rec.WantSample() && ty != "" {
							rec.Sample(map[string]interface{}{"licence": lic, "parent": p.name, "type": ty, "ttl": ttl, "channel": cc.ch, "returned_permissions": permString(k.Permissions()), "returned_expiry": k.Expires().Unix()})
						}
						c11CheckFields(rec, fail, w, k, want, p.contract, p.sig, p.master, ttl, t0, t1)
						if rch, _ := rep.Fields["channel"].(string); rch != cc.ch {
							fail("returned-channel", fmt.Sprintf("response channel %q, requested %q", rch, cc.ch), w)
						}
						if ttl >= 0 { // use the key (an already expired key authorizes nothing)
							c11CheckUse(rec, b, fail, w, got, cc.ch, want)
						}
					}
				}
			}
		}
		// ---- extension
		var masks []int
		for m := 0; m < 128; m++ {
			if thorough || m%11 == 0 || m == 127 || m == 32 || m == 33+2 {
				masks = append(masks, m)
			}
		}
		if !thorough && lic != 3 {
			masks = []int{32 | 1, 32 | 3, 127, 3}
		}
		extChannels := []struct {
			ch string
		}{{"a/b/"}, {"a/b/#/"}, {"a/c/"}, {"a/+/"}, {"a/b"}, {"b/"}}
		for _, ptgt := range []string{"a/b/", "a/#/"} {
			pt := c03Target{strings.Split(strings.TrimSuffix(strings.TrimSuffix(ptgt, "#/"), "/"), "/"), strings.HasSuffix(ptgt, "#/")}
			for _, m := range masks {
				pm := uint8(m) << 1 // bits r..x
				for _, expired := range []bool{false, true} {
					pkey := b.RawKey(func(k security.Key) {
						k.SetPermissions(pm)
						k.SetTarget(ptgt)
						if expired {
							k.SetExpires(time.Now().Add(-time.Hour))
						}
					})
					for ti, ty := range types {
						if expired && ti%4 != 0 {
							continue
						}
						for _, ttl := range ttls[:2] {
							for _, ec := range extChannels {
								caseNo++
								if !vk.Mine(caseNo) {
									continue
								}
								w := map[string]interface{}{"parent": fmt.Sprintf("target=%s perms=%q expired=%v", ptgt, permString(pm), expired), "type": ty, "ttl": ttl, "channel": ec.ch}
								t0 := time.Now()
								rep, err := cl.Request("keygen", map[string]interface{}{"key": pkey, "channel": ec.ch, "type": ty, "ttl": ttl})
								t1 := time.Now()
								if err != nil {
									fail("no-reply", err.Error(), w)
									continue
								}
								got, _ := rep.Fields["key"].(string)
								issued := rep.Status == 200 && got != ""
								rec.Inc("extend_requests")
								name := strings.TrimSuffix(ec.ch, "#/")
								suffix := ""
								if strings.HasSuffix(ec.ch, "#/") {
									suffix = "#/"
								}
								static := strings.HasSuffix(name, "/") && !strings.ContainsAny(name, "+#")
								var reqLv []string
								if static {
									reqLv = strings.Split(strings.TrimSuffix(name, "/"), "/")
								}
								may := !expired && pm&security.AllowExtend != 0 && static && covers(pt, reqLv)
								rec.Case(vk.Hash(lic, "extend", ptgt, m, expired, ty, ttl, ec.ch), true)
								if !may {
									if issued {
										fail("key-issued-by-non-extendable", fmt.Sprintf("parent(%v) channel %q: a key was issued: %s", w["parent"], ec.ch, rep.Raw), w)
									}
									continue
								}
								if !issued {
									fail("valid-extension-refused", fmt.Sprintf("parent(%v) channel %q type %q refused: %s", w["parent"], ec.ch, ty, rep.Raw), w)
									continue
								}
								rec.Inc("keys_returned")
								k, err := b.Cipher.DecryptKey([]byte(got))
								if err != nil || len(k) != 24 {
									fail("returned-key-undecryptable", got, w)
									continue
								}
								want := (pm &^ security.AllowExtend) & Perms(ty)
								c11CheckFields(rec, fail, w, k, want, b.Lic.Contract(), b.Lic.Signature(), 1, ttl, t0, t1)
								target := name + connID + "/" + suffix
								if rch, _ := rep.Fields["channel"].(string); rch != target {
									fail("extension-target", fmt.Sprintf("response channel %q, expected %q", rch, target), w)
								}
								c11CheckUse(rec, b, fail, w, got, target, want)
								// the sub-channel of another connection and the parent channel itself stay closed
								for _, other := range []string{name + "SOMEONEELSE/", name} {
									ch := security.ParseChannel([]byte(got + "/" + other))
									for _, pc := range c03Perms {
										if _, _, ok := b.Svc.Authorize(ch, pc.bit); ok {
											fail("extension-target", fmt.Sprintf("extended key for %s is accepted for %s on %s", target, pc.name, other), w)
										}
									}
								}
							}
						}
					}
				}
			}
		}
		// ---- the HTTP keygen form is the other way to mint keys: same rule
		handler := b.Svc.VerifKeygen().HTTP()
		keyRe := regexp.MustCompile(`key\s*:\s*([A-Za-z0-9_-]{32})`)
		for _, p := range parents {
			for _, cc := range creationChannels {
				for _, ttl := range []int{0, 3600} {
					caseNo++
					if !vk.Mine(caseNo) {
						continue
					}
					form := url.Values{"key": {p.key}, "channel": {cc.ch}, "sub": {"on"}, "pub": {"on"}, "load": {"on"}, "ttl": {fmt.Sprint(ttl)}}
					req := httptest.NewRequest("POST", "/keygen", strings.NewReader(form.Encode()))
					req.Header.Set("Content-Type", "application/x-www-form-urlencoded")
					rr := httptest.NewRecorder()
					t0 := time.Now()
					handler(rr, req)
					t1 := time.Now()
					w := map[string]interface{}{"parent": p.name, "entry": "http-form", "channel": cc.ch, "ttl": ttl}
					m := keyRe.FindStringSubmatch(html.UnescapeString(rr.Body.String()))
					rec.Inc("http_form_requests")
					rec.Case(vk.Hash(lic, "http", p.name, cc.ch, ttl), true)
					if !p.mint || !cc.valid {
						if m != nil {
							fail("key-issued-by-non-master/http-form", fmt.Sprintf("parent %s channel %q: the keygen form returned key %s", p.name, cc.ch, m[1]), w)
						}
						continue
					}
					if m == nil {
						fail("valid-keygen-refused/http-form", fmt.Sprintf("master key, channel %q: no key in the form response", cc.ch), w)
						continue
					}
					k, err := b.Cipher.DecryptKey([]byte(m[1]))
					if err != nil || len(k) != 24 {
						fail("returned-key-undecryptable", m[1], w)
						continue
					}
					c11CheckFields(rec, fail, w, k, Perms("rwl"), p.contract, p.sig, p.master, int32(ttl), t0, t1)
				}
			}
		}
		// ---- and the exported CreateKey itself
		for _, p := range parents {
			caseNo++
			if !vk.Mine(caseNo) {
				continue
			}
			k, kerr := b.Svc.VerifKeygen().CreateKey(p.key, "a/b/", security.AllowReadWrite, time.Unix(0, 0))
			rec.Case(vk.Hash(lic, "createkey", p.name), true)
			if !p.mint && (kerr == nil || k != "") {
				fail("key-issued-by-non-master/CreateKey", fmt.Sprintf("CreateKey with parent %s returned %q", p.name, k), map[string]interface{}{"parent": p.name})
			}
		}
		c11EntryPoints(rec, b, lic, &caseNo)
		cl.Abort()
		b.Close()
	}
}

func c11CheckFields(rec *vk.Rec, fail func(string, string, map[string]interface{}), w map[string]interface{}, k security.Key, want uint8, contract, sig uint32, master uint16, ttl int32, t0, t1 time.Time) {
	rec.Inc("field_comparisons")
	if k.Permissions()&security.AllowMaster != 0 {
		fail("master-bit-in-derived-key", fmt.Sprintf("permissions %#02x", k.Permissions()), w)
	}
	if k.Permissions()&security.AllowExtend != 0 && w["parent"] != "master" {
		fail("extend-bit-in-extended-key", fmt.Sprintf("permissions %#02x", k.Permissions()), w)
	}
	if k.Permissions() != want {
		kind := "permission-missing"
		if k.Permissions()&^want != 0 {
			kind = "permission-not-requested-or-not-held"
		}
		fail(kind, fmt.Sprintf("derived key permissions %q, expected %q", permString(k.Permissions()), permString(want)), w)
	}
	if k.Contract() != contract || k.Signature() != sig || k.Master() != master {
		fail("identity-changed", fmt.Sprintf("contract/signature/master %d/%d/%d, parent %d/%d/%d", k.Contract(), k.Signature(), k.Master(), contract, sig, master), w)
	}
	exp := k.Expires().Unix()
	if ttl == 0 {
		if exp != 0 {
			fail("expiry", fmt.Sprintf("ttl 0 requested but key expires at %d", exp), w)
		}
	} else {
		lo, hi := t0.Unix()+int64(ttl)-1, t1.Unix()+int64(ttl)+1
		if exp < lo || exp > hi {
			fail("expiry", fmt.Sprintf("ttl %d requested at [%d,%d] but key expires at %d", ttl, t0.Unix(), t1.Unix(), exp), w)
		}
	}
}

// c11CheckUse: the returned key authorizes exactly want on its target and nothing on siblings/parents.
func c11CheckUse(rec *vk.Rec, b *Broker, fail func(string, string, map[string]interface{}), w map[string]interface{}, key, target string, want uint8) {
	tl := strings.Split(strings.TrimSuffix(strings.TrimSuffix(target, "#/"), "/"), "/")
	if strings.TrimSuffix(target, "#/") == "" {
		tl = nil
	}
	tg := c03Target{tl, strings.HasSuffix(target, "#/")}
	lit := func(l []string) []string {
		o := make([]string, len(l))
		for i, x := range l {
			if x == "+" {
				x = "q"
			}
			o[i] = x
		}
		return o
	}
	probes := [][]string{lit(tl), append(lit(tl), "child"), {"zzz"}}
	if len(tl) > 1 {
		probes = append(probes, lit(tl[:len(tl)-1]))
		sib := lit(tl)
		sib[len(sib)-1] = "sibling"
		probes = append(probes, sib)
	}
	for _, pr := range probes {
		if len(pr) == 0 {
			continue
		}
		ch := security.ParseChannel([]byte(key + "/" + strings.Join(pr, "/") + "/"))
		if ch.ChannelType == security.ChannelInvalid {
			continue
		}
		for _, pc := range c03Perms {
			_, _, got := b.Svc.Authorize(ch, pc.bit)
			exp := want&pc.bit == pc.bit && covers(tg, pr)
			rec.Inc("use_comparisons")
			if got != exp {
				kind := "derived-key-use-refused"
				if got {
					kind = "derived-key-use-exceeds"
				}
				fail(kind, fmt.Sprintf("key for %s perms %q: %s on %s/ -> %v, expected %v", target, permString(want), pc.name, strings.Join(pr, "/"), got, exp), w)
			}
		}
	}
}

// c11EntryPoints: an extendable key is refused at every entry point that publishes or subscribes.
func c11EntryPoints(rec *vk.Rec, b *Broker, lic int, caseNo *int) {
	normal := b.MustKey("#/", Perms("rwp"))
	for _, pm := range []string{"rwe", "re", "we", "rwslpe", "e", "rwpe"} {
		*caseNo++
		if !vk.Mine(*caseNo) {
			continue
		}
		ext := b.RawKey(func(k security.Key) { k.SetPermissions(Perms(pm)); k.SetTarget("a/#/") })
		w := map[string]interface{}{"licence": lic, "extendable_key_perms": pm}
		fail := func(kind, desc string) {
			rec.Violation(*caseNo, kind, fmt.Sprintf("licence v%d extendable key %q: %s", lic, pm, desc), w)
		}
		watcher := b.Attach("watcher", nil)
		user := b.Attach("user", nil)
		watcher.Connect("w", "", nil)
		user.Connect("u", "", nil)
		uid, _ := user.Me()
		watcher.Subscribe(normal + "/a/")
		// SUBSCRIBE
		if rc, _, err := user.Subscribe(ext + "/a/b/"); err != nil || rc != 0x80 {
			fail("extendable-key-subscribes/SUBSCRIBE", fmt.Sprintf("SUBACK %#x err=%v", rc, err))
		}
		// link with auto-subscribe
		if _, err := user.Request("link", map[string]interface{}{"name": "l1", "key": ext, "channel": "a/b/", "subscribe": true}); err != nil {
			fail("no-reply", err.Error())
		}
		// presence
		if rep, err := user.Request("presence", map[string]interface{}{"key": ext, "channel": "a/b/", "status": true, "changes": true}); err != nil || rep.Status == 200 {
			fail("extendable-key-subscribes/presence", fmt.Sprintf("presence request accepted: %v", rep))
		}
		user.Take()
		// does the user receive anything published on a/b/ now?
		watcher.Take()
		if _, err := watcher.Publish(normal+"/a/b/", []byte("probe-"+pm), false); err != nil {
			fail("no-reply", err.Error())
		}
		got, _ := user.Take()
		for _, p := range got {
			if p.Payload == "probe-"+pm {
				fail("extendable-key-subscribes/link-auto-subscribe", "the connection receives messages on a/b/ after a link request with subscribe:true and an extendable key")
			}
		}
		_, pairs := b.Svc.VerifTrie().VerifDump()
		for _, pr := range pairs {
			if pr.ID == uid {
				fail("extendable-key-subscribes/trie", fmt.Sprintf("the trie holds a subscription %v of the connection that only ever presented an extendable key", []uint32(pr.Ssid)))
			}
		}
		// PUBLISH directly and through the link
		watcher.Take()
		user.Publish(ext+"/a/b/", []byte("direct-"+pm), false)
		user.Publish("l1", []byte("vialink-"+pm), false)
		wp, _ := watcher.Take()
		for _, p := range wp {
			if strings.HasPrefix(p.Payload, "direct-") || strings.HasPrefix(p.Payload, "vialink-") {
				fail("extendable-key-publishes", "a publish with an extendable key was delivered: "+p.Payload)
			}
		}
		// last will
		wl := b.Attach("will", nil)
		wl.Connect("wl", "", &mqttref.Will{Topic: ext + "/a/b/", Payload: []byte("will-" + pm)})
		wl.Disconnect()
		wl.WaitClosed(20 * time.Second)
		wl.Abort()
		wp, _ = watcher.Take()
		for _, p := range wp {
			if strings.HasPrefix(p.Payload, "will-") {
				fail("extendable-key-publishes/last-will", "a last will with an extendable key was delivered")
			}
		}
		rec.Case(vk.Hash(lic, "entrypoints", pm), true)
		rec.Inc("entry_point_rounds")
		watcher.Unsubscribe(normal + "/a/")
		watcher.Abort()
		user.Abort()
		// wait for both closes so that the next round starts from an empty trie
		for i := 0; i < 2000; i++ {
			if _, p := b.Svc.VerifTrie().VerifDump(); len(p) == 0 && b.Svc.VerifConnections() <= 1 {
				break
			}
			time.Sleep(time.Millisecond)
		}
	}
}
