//go:build verif

// Package brokerlab builds real broker.Service values for the harnesses (DESIGN §2/§3), attaches
// scripted clients over in-memory transports, and mints keys. Nothing here decides a property.
package brokerlab

import (
	"context"
	"encoding/json"
	"errors"
	"fmt"
	"io"
	"net"
	"os"
	"sync"
	"time"

	"github.com/eclipse/paho.mqtt.golang/packets"
	cfg "github.com/emitter-io/config"
	"github.com/emitter-io/emitter/internal/broker"
	"github.com/emitter-io/emitter/internal/config"
	"github.com/emitter-io/emitter/internal/provider/logging"
	"github.com/emitter-io/emitter/internal/security"
	"github.com/emitter-io/emitter/internal/security/license"
	"github.com/emitter-io/emitter/verif/lab/fakenet"
	"github.com/emitter-io/emitter/verif/lab/mqttref"
	"github.com/weaveworks/mesh"
)

// ---------------------------------------------------------------------------------------------
// quiet logger

type nullLog struct{}

func (nullLog) Name() string                                { return "null" }
func (nullLog) Configure(map[string]interface{}) error      { return nil }
func (nullLog) Printf(format string, v ...interface{})      {}

var logMu sync.Mutex

// Quiet replaces the process-wide logger by a discarding one.
func Quiet() {
	logMu.Lock()
	logging.Logger = nullLog{}
	logMu.Unlock()
}

// ---------------------------------------------------------------------------------------------
// gossip stand-in for single-broker harnesses (the unstarted mesh router would block in
// GossipBroadcast); records what the swarm hands to the transport.

type NullGossip struct {
	mu         sync.Mutex
	Broadcasts int
	Unicasts   int
	OnBcast    func(mesh.GossipData)
	OnUnicast  func(dst mesh.PeerName, buf []byte) error
}

func (g *NullGossip) GossipUnicast(dst mesh.PeerName, msg []byte) error {
	g.mu.Lock()
	g.Unicasts++
	f := g.OnUnicast
	g.mu.Unlock()
	if f != nil {
		return f(dst, msg)
	}
	return nil
}
func (g *NullGossip) GossipBroadcast(update mesh.GossipData) {
	g.mu.Lock()
	g.Broadcasts++
	f := g.OnBcast
	g.mu.Unlock()
	if f != nil {
		f(update)
	}
}
func (g *NullGossip) GossipNeighbourSubset(update mesh.GossipData) {}

// ---------------------------------------------------------------------------------------------

type Opts struct {
	LicenseVersion int    // 1,2,3 (default 3)
	License        string // reuse an existing licence string (restart on same dir)
	Matcher        string // "" or "mqtt"
	Storage        string // "inmemory" (default), "ssd", "noop"
	StorageDir     string
	ClusterDir     string // default: fresh temp dir
	Node           int    // node number 1..9
	Gossip         mesh.Gossip
	MaxMessageSize int
	ReadRate       int
	// MeshPort > 0: the real mesh router of the swarm is started on 127.0.0.1:MeshPort (Swarm.Listen, as Service.Listen does)
	// instead of a substituted gossip transport; peers are joined with Broker.Join.
	MeshPort int
	// ContractURL != "": the HTTP contract provider (a remote registry answering GET <url><id>) with the given refresh
	// interval in milliseconds, instead of the single-contract provider.
	ContractURL      string
	ContractInterval int
}

type Broker struct {
	Svc       *broker.Service
	Lic       license.License
	LicString string
	Cipher    license.Cipher
	Master    string // encrypted master key (id 1)
	Contract  uint32
	Dir       string
	ownDir    bool
	Gossip    mesh.Gossip
	cancel    context.CancelFunc
}

func newLicense(v int) license.License {
	switch v {
	case 1:
		return license.NewV1()
	case 2:
		return license.NewV2()
	default:
		return license.NewV3()
	}
}

var newSvcMu sync.Mutex // NewService assigns the process-wide logger

// NewBroker creates one real service. Listen() is never called: no port is bound.
func NewBroker(o Opts) (*Broker, error) {
	b := &Broker{}
	if o.License != "" {
		l, err := license.Parse(o.License)
		if err != nil {
			return nil, err
		}
		b.Lic = l
	} else {
		b.Lic = newLicense(o.LicenseVersion)
	}
	b.LicString = b.Lic.String()
	c, err := b.Lic.Cipher()
	if err != nil {
		return nil, err
	}
	b.Cipher = c
	mk, err := b.Lic.NewMasterKey(1)
	if err != nil {
		return nil, err
	}
	if b.Master, err = c.EncryptKey(mk); err != nil {
		return nil, err
	}
	b.Contract = b.Lic.Contract()
	b.Dir = o.ClusterDir
	if b.Dir == "" {
		d, err := os.MkdirTemp(os.Getenv("VERIF_SCRATCH"), "broker-")
		if err != nil {
			return nil, err
		}
		b.Dir, b.ownDir = d, true
	}
	if o.Node == 0 {
		o.Node = 1
	}
	conf := config.NewDefault().(*config.Config)
	conf.License = b.LicString
	conf.TLS = nil
	conf.Matcher = o.Matcher
	conf.Cluster = &config.ClusterConfig{
		NodeName:      fmt.Sprintf("00:00:00:00:00:%02x", o.Node),
		ListenAddr:    ":4000",
		AdvertiseAddr: ":4001",
		Directory:     b.Dir,
	}
	if o.MeshPort > 0 {
		conf.Cluster.ListenAddr = fmt.Sprintf("127.0.0.1:%d", o.MeshPort)
		conf.Cluster.AdvertiseAddr = fmt.Sprintf("127.0.0.1:%d", o.MeshPort)
	}
	switch o.Storage {
	case "", "inmemory":
		conf.Storage = &cfg.ProviderConfig{Provider: "inmemory"}
	case "ssd":
		conf.Storage = &cfg.ProviderConfig{Provider: "ssd", Config: map[string]interface{}{"dir": o.StorageDir}}
	case "noop":
		conf.Storage = &cfg.ProviderConfig{Provider: "noop"}
	}
	conf.Monitor = &cfg.ProviderConfig{Provider: "noop"}
	if o.ContractURL != "" {
		conf.Contract = &cfg.ProviderConfig{Provider: "http", Config: map[string]interface{}{"url": o.ContractURL, "interval": float64(o.ContractInterval)}}
	}
	conf.Limit.MessageSize = o.MaxMessageSize
	conf.Limit.ReadRate = o.ReadRate
	ctx, cancel := context.WithCancel(context.Background())
	b.cancel = cancel
	newSvcMu.Lock()
	svc, err := broker.NewService(ctx, conf)
	Quiet()
	newSvcMu.Unlock()
	if err != nil {
		cancel()
		return nil, err
	}
	b.Svc = svc
	if o.MeshPort > 0 {
		svc.VerifSwarm().Listen(ctx) // starts the router and the periodic update, as Service.Listen does
		svc.VerifStartSurveyor()
		return b, nil
	}
	b.Gossip = o.Gossip
	if b.Gossip == nil {
		b.Gossip = &NullGossip{}
	}
	svc.VerifSwarm().VerifSetGossip(b.Gossip)
	return b, nil
}

// Close stops the service (cluster state and storage are closed) and removes an owned temp dir.
func (b *Broker) Close() {
	defer func() { recover() }() // mesh router Stop on a never started router
	if b.ownDir {
		defer os.RemoveAll(b.Dir)
	}
	b.cancel()
	b.Svc.VerifClosePresence() // its poller would keep the whole service reachable for ever
	func() {
		defer func() { recover() }()
		b.Svc.VerifSwarm().VerifState().Close()
	}()
	if st := b.Svc.VerifStorage(); st != nil {
		st.Close()
	}
	for _, p := range b.Svc.VerifSwarm().VerifPeers() {
		p.Close() // stops the peer's 5 ms ticker
	}
	b.Svc.VerifSwarm().VerifDetach() // the mesh router's goroutines cannot be stopped and would keep everything reachable
}

// Join makes the real mesh router connect to another broker's mesh port (Service.Join).
func (b *Broker) Join(port int) []error {
	return b.Svc.VerifSwarm().Join(fmt.Sprintf("127.0.0.1:%d", port))
}

// Key mints a key through the real keygen.CreateKey with the master key.
func (b *Broker) Key(channel string, perms uint8, expires time.Time) (string, error) {
	k, e := b.Svc.VerifKeygen().CreateKey(b.Master, channel, perms, expires)
	if e != nil {
		return "", errors.New(e.Message)
	}
	return k, nil
}

// MustKey mints a key with no expiry or panics.
func (b *Broker) MustKey(channel string, perms uint8) string {
	k, err := b.Key(channel, perms, time.Unix(0, 0))
	if err != nil {
		panic(fmt.Sprintf("keygen %q: %v", channel, err))
	}
	return k
}

// RawKey builds key bytes directly and encrypts them with the licence's cipher.
func (b *Broker) RawKey(f func(k security.Key)) string {
	k := security.Key(make([]byte, 24))
	k.SetSalt(0x1234)
	k.SetMaster(1)
	k.SetContract(b.Lic.Contract())
	k.SetSignature(b.Lic.Signature())
	f(k)
	s, err := b.Cipher.EncryptKey(k)
	if err != nil {
		panic(err)
	}
	return s
}

// Perms converts a type string (rwslpex) to the permission mask.
func Perms(s string) uint8 {
	var p uint8
	for _, c := range s {
		switch c {
		case 'r':
			p |= security.AllowRead
		case 'w':
			p |= security.AllowWrite
		case 's':
			p |= security.AllowStore
		case 'l':
			p |= security.AllowLoad
		case 'p':
			p |= security.AllowPresence
		case 'e':
			p |= security.AllowExtend
		case 'x':
			p |= security.AllowExecute
		}
	}
	return p
}

// ---------------------------------------------------------------------------------------------
// scripted client

// Pub is one PUBLISH received by a client.
type Pub struct {
	Topic   string
	Payload string
	Qos     byte
	Retain  bool
}

// ErrWatchdog marks an inconclusive wait.
var ErrWatchdog = errors.New("brokerlab: watchdog expired while waiting for a reply")

// ErrClosed means the broker closed the connection.
var ErrClosed = errors.New("brokerlab: connection closed by broker")

type Client struct {
	Name   string
	C      *fakenet.Conn // client end
	Server net.Conn      // what was attached to the broker
	nextID uint16
	inbox  []Pub  // publishes received and not yet taken
	raw    []byte // unparsed tail
	Wait   time.Duration
	ConnID string // from emitter/me/
	Dead   bool
	Log    []string
	// KeepBetween leaves the publishes that arrive between a SUBSCRIBE and its SUBACK in the inbox
	// (in place) instead of handing them to the caller only.
	KeepBetween bool
	// Pending is scratch space for harnesses that parse the client's stream themselves.
	Pending []byte
}

// Attach creates a transport pair and hands the server end to the broker, optionally wrapped.
func (b *Broker) Attach(name string, wrap func(net.Conn) net.Conn) *Client {
	cl, sv := fakenet.Pair()
	var s net.Conn = sv
	if wrap != nil {
		s = wrap(sv)
	}
	b.Svc.VerifAttach(s)
	return &Client{Name: name, C: cl, Server: s, nextID: 1, Wait: 120 * time.Second}
}

func (c *Client) id() uint16 {
	c.nextID++
	if c.nextID == 0 {
		c.nextID = 1
	}
	return c.nextID
}

// Send writes raw bytes.
func (c *Client) Send(b []byte) error {
	_, err := c.C.Write(b)
	return err
}

// pump parses whatever is buffered; returns control packets (non-PUBLISH) in order, publishes go
// to the inbox. blocking=false never waits.
func (c *Client) pump() ([]packets.ControlPacket, error) {
	c.raw = append(c.raw, c.C.TakeAll()...)
	pkts, rest, err := mqttref.Split(c.raw)
	c.raw = append([]byte(nil), rest...)
	if err != nil {
		return nil, fmt.Errorf("stream from broker is not MQTT: %v", err)
	}
	var ctl []packets.ControlPacket
	for _, p := range pkts {
		cp, err := mqttref.Decode(p)
		if err != nil {
			return nil, fmt.Errorf("undecodable packet from broker: %v (% x)", err, head(p))
		}
		if pp, ok := cp.(*packets.PublishPacket); ok {
			c.inbox = append(c.inbox, Pub{Topic: pp.TopicName, Payload: string(pp.Payload), Qos: pp.Qos, Retain: pp.Retain})
			ctl = append(ctl, nil) // position marker
			continue
		}
		ctl = append(ctl, cp)
	}
	return ctl, nil
}

func head(p []byte) []byte {
	if len(p) > 24 {
		return p[:24]
	}
	return p
}

// await reads until a control packet satisfying match arrives. Publishes that arrive before it
// are appended to the inbox (in order); returns how many publishes were in the inbox when the
// matching packet was seen.
func (c *Client) await(match func(packets.ControlPacket) bool) (packets.ControlPacket, int, error) {
	deadline := time.Now().Add(c.Wait)
	for {
		base := len(c.inbox)
		ctl, err := c.pump()
		if err != nil {
			return nil, 0, err
		}
		// walk ctl with markers to compute the inbox position at the match
		pos := base
		for _, cp := range ctl {
			if cp == nil {
				pos++
				continue
			}
			if match(cp) {
				return cp, pos, nil
			}
		}
		rem := time.Until(deadline)
		if rem <= 0 {
			return nil, 0, ErrWatchdog
		}
		_, eof, to := c.C.WaitData(rem)
		if eof {
			// drain a last time
			if c.C.Buffered() == 0 {
				c.Dead = true
				return nil, 0, ErrClosed
			}
		}
		if to {
			return nil, 0, ErrWatchdog
		}
	}
}

// Connect sends CONNECT and awaits CONNACK.
func (c *Client) Connect(clientID, username string, will *mqttref.Will) (byte, error) {
	if err := c.Send(mqttref.Connect(clientID, username, will)); err != nil {
		return 0, err
	}
	cp, _, err := c.await(func(p packets.ControlPacket) bool { _, ok := p.(*packets.ConnackPacket); return ok })
	if err != nil {
		return 0, err
	}
	return cp.(*packets.ConnackPacket).ReturnCode, nil
}

// Subscribe sends one SUBSCRIBE with one topic; returns the return code and the publishes that
// arrived between the SUBSCRIBE and its SUBACK (they are removed from the inbox; publishes already
// in the inbox before the call stay there).
func (c *Client) Subscribe(topic string) (byte, []Pub, error) {
	c.DrainInto()
	before := len(c.inbox)
	id := c.id()
	if err := c.Send(mqttref.Subscribe(id, topic)); err != nil {
		return 0, nil, err
	}
	cp, pos, err := c.await(func(p packets.ControlPacket) bool {
		s, ok := p.(*packets.SubackPacket)
		return ok && s.MessageID == id
	})
	if err != nil {
		return 0, nil, err
	}
	between := append([]Pub(nil), c.inbox[before:pos]...)
	if !c.KeepBetween {
		c.inbox = append(c.inbox[:before], c.inbox[pos:]...)
	}
	rc := cp.(*packets.SubackPacket).ReturnCodes
	if len(rc) != 1 {
		return 0, between, fmt.Errorf("SUBACK with %d return codes for one topic", len(rc))
	}
	return rc[0], between, nil
}

// SubscribeMany sends one SUBSCRIBE with several topics and awaits its SUBACK.
func (c *Client) SubscribeMany(topics []string) ([]byte, error) {
	id := c.id()
	if err := c.Send(mqttref.Subscribe(id, topics...)); err != nil {
		return nil, err
	}
	cp, _, err := c.await(func(p packets.ControlPacket) bool {
		s, ok := p.(*packets.SubackPacket)
		return ok && s.MessageID == id
	})
	if err != nil {
		return nil, err
	}
	return cp.(*packets.SubackPacket).ReturnCodes, nil
}

// UnsubscribeMany sends one UNSUBSCRIBE with several topics and awaits its UNSUBACK.
func (c *Client) UnsubscribeMany(topics []string) error {
	id := c.id()
	if err := c.Send(mqttref.Unsubscribe(id, topics...)); err != nil {
		return err
	}
	_, _, err := c.await(func(p packets.ControlPacket) bool {
		s, ok := p.(*packets.UnsubackPacket)
		return ok && s.MessageID == id
	})
	return err
}

// PresenceBarrier is a logical "every earlier presence notification has been delivered" barrier.
// Notifications go through one FIFO queue of capacity Q served by one goroutine that finishes
// publishing item k (a synchronous write into every watcher's transport) before it dequeues item
// k+1, and Notify blocks while the queue is full. The helper makes Q+2 further transitions on
// channels nobody watches, each acknowledged (so each Notify call has returned): at least two of
// them have then been dequeued, hence every notification queued before them has been published.
// No waiting on a watcher and no wall clock is involved.
func (b *Broker) PresenceBarrier(helper *Client, key string, round int) error {
	q := b.Svc.VerifPresenceQueueCap() + 2
	n := (q + 1) / 2
	topics := make([]string, 0, n)
	for i := 0; i < n; i++ {
		topics = append(topics, fmt.Sprintf("%s/zzbarrier/r%d/n%d/", key, round, i))
	}
	for len(topics) > 0 {
		k := len(topics)
		if k > 40 {
			k = 40
		}
		rc, err := helper.SubscribeMany(topics[:k])
		if err != nil {
			return err
		}
		for _, c := range rc {
			if c == 0x80 {
				return fmt.Errorf("barrier subscribe refused")
			}
		}
		if err := helper.UnsubscribeMany(topics[:k]); err != nil {
			return err
		}
		topics = topics[k:]
	}
	helper.Take()
	return nil
}

// Unsubscribe sends UNSUBSCRIBE and awaits UNSUBACK.
func (c *Client) Unsubscribe(topic string) error {
	id := c.id()
	if err := c.Send(mqttref.Unsubscribe(id, topic)); err != nil {
		return err
	}
	_, _, err := c.await(func(p packets.ControlPacket) bool {
		s, ok := p.(*packets.UnsubackPacket)
		return ok && s.MessageID == id
	})
	return err
}

// Publish sends a QoS-1 PUBLISH and awaits its PUBACK (the barrier of §3): when it returns every
// Send the publish caused has completed. Returns the message id used.
func (c *Client) Publish(topic string, payload []byte, retain bool) (uint16, error) {
	id := c.id()
	if err := c.Send(mqttref.Publish(id, topic, payload, 1, retain)); err != nil {
		return id, err
	}
	_, _, err := c.await(func(p packets.ControlPacket) bool {
		s, ok := p.(*packets.PubackPacket)
		return ok && s.MessageID == id
	})
	return id, err
}

// Publish0 sends a QoS-0 PUBLISH (no barrier).
func (c *Client) Publish0(topic string, payload []byte, retain bool) error {
	return c.Send(mqttref.Publish(0, topic, payload, 0, retain))
}

// Ping is a round trip that proves the connection goroutine has processed everything sent before.
func (c *Client) Ping() error {
	if err := c.Send(mqttref.Pingreq()); err != nil {
		return err
	}
	_, _, err := c.await(func(p packets.ControlPacket) bool { _, ok := p.(*packets.PingrespPacket); return ok })
	return err
}

// DrainInto moves everything currently buffered into the inbox without waiting.
func (c *Client) DrainInto() error {
	_, err := c.pump()
	return err
}

// Take returns and clears the inbox (after draining what is buffered).
func (c *Client) Take() ([]Pub, error) {
	err := c.DrainInto()
	out := c.inbox
	c.inbox = nil
	return out, err
}

// Reply is the decoded JSON answer to an emitter/<x>/ request or an emitter/error/ notification.
type Reply struct {
	Topic  string
	Status int
	Req    uint16
	Raw    string
	Fields map[string]interface{}
}

// Request publishes payload to emitter/<name>/ with QoS 1 and returns the reply carrying the same
// request id (removed from the inbox). Other publishes stay in the inbox.
func (c *Client) Request(name string, payload interface{}) (*Reply, error) {
	body, _ := json.Marshal(payload)
	c.DrainInto()
	before := len(c.inbox)
	id, err := c.Publish("emitter/"+name+"/", body, false)
	if err != nil {
		return nil, err
	}
	for i := before; i < len(c.inbox); i++ {
		p := c.inbox[i]
		if len(p.Topic) >= 8 && p.Topic[:8] == "emitter/" {
			var f map[string]interface{}
			if json.Unmarshal([]byte(p.Payload), &f) != nil {
				continue
			}
			if r, ok := f["req"].(float64); ok && uint16(r) == id {
				c.inbox = append(c.inbox[:i], c.inbox[i+1:]...)
				st, _ := f["status"].(float64)
				return &Reply{Topic: p.Topic, Status: int(st), Req: id, Raw: p.Payload, Fields: f}, nil
			}
		}
	}
	return nil, fmt.Errorf("no reply with req=%d to emitter/%s/ before the PUBACK", id, name)
}

// RequestMany pipelines the requests: all are written back to back (QoS 1, distinct packet ids), then the last PUBACK is
// awaited (the connection goroutine serves them in order, so every reply precedes it); replies are matched by "req".
// A request without a reply yields nil at its position.
func (c *Client) RequestMany(name string, payloads []interface{}) ([]*Reply, error) {
	c.DrainInto()
	ids := make([]uint16, len(payloads))
	var buf []byte
	for i, p := range payloads {
		body, _ := json.Marshal(p)
		ids[i] = c.id()
		buf = append(buf, mqttref.Publish(ids[i], "emitter/"+name+"/", body, 1, false)...)
	}
	if len(payloads) == 0 {
		return nil, nil
	}
	if err := c.Send(buf); err != nil {
		return nil, err
	}
	last := ids[len(ids)-1]
	if _, _, err := c.await(func(p packets.ControlPacket) bool {
		s, ok := p.(*packets.PubackPacket)
		return ok && s.MessageID == last
	}); err != nil {
		return nil, err
	}
	out := make([]*Reply, len(payloads))
	keep := c.inbox[:0]
	for _, p := range c.inbox {
		matched := false
		if len(p.Topic) >= 8 && p.Topic[:8] == "emitter/" {
			var f map[string]interface{}
			if json.Unmarshal([]byte(p.Payload), &f) == nil {
				if r, ok := f["req"].(float64); ok {
					for i, id := range ids {
						if uint16(r) == id && out[i] == nil {
							st, _ := f["status"].(float64)
							out[i] = &Reply{Topic: p.Topic, Status: int(st), Req: id, Raw: p.Payload, Fields: f}
							matched = true
							break
						}
					}
				}
			}
		}
		if !matched {
			keep = append(keep, p)
		}
	}
	c.inbox = keep
	return out, nil
}

// TakeErrors removes emitter/error/ notifications from the inbox and returns them.
func (c *Client) TakeErrors() []Reply {
	var out []Reply
	keep := c.inbox[:0]
	for _, p := range c.inbox {
		if p.Topic == "emitter/error/" {
			var f map[string]interface{}
			json.Unmarshal([]byte(p.Payload), &f)
			st, _ := f["status"].(float64)
			rq, _ := f["req"].(float64)
			out = append(out, Reply{Topic: p.Topic, Status: int(st), Req: uint16(rq), Raw: p.Payload, Fields: f})
			continue
		}
		keep = append(keep, p)
	}
	c.inbox = keep
	return out
}

// Me asks for the connection id.
func (c *Client) Me() (string, error) {
	r, err := c.Request("me", map[string]string{})
	if err != nil {
		return "", err
	}
	id, _ := r.Fields["id"].(string)
	c.ConnID = id
	return id, nil
}

// WaitClosed waits until the broker has closed its end (Conn.Close closes the socket last).
func (c *Client) WaitClosed(d time.Duration) bool {
	deadline := time.Now().Add(d)
	for {
		if c.C.PeerClosedWrite() {
			return true
		}
		rem := time.Until(deadline)
		if rem <= 0 {
			return false
		}
		if has, eof, _ := c.C.WaitData(rem); eof {
			return true
		} else if has {
			// data pending: move it out of the way so WaitData can observe EOF
			c.raw = append(c.raw, c.C.TakeAll()...)
		}
	}
}

// Disconnect sends DISCONNECT.
func (c *Client) Disconnect() error { return c.Send(mqttref.Disconnect()) }

// Abort closes the client end abruptly.
func (c *Client) Abort() { c.C.Close() }

var _ = io.EOF
