//go:build verif

package brokerlab

import (
	"testing"
	"time"
)

func TestSmoke(t *testing.T) {
	t0 := time.Now()
	b, err := NewBroker(Opts{})
	if err != nil {
		t.Fatal(err)
	}
	defer b.Close()
	t.Logf("broker up in %v", time.Since(t0))
	k := b.MustKey("#/", Perms("rwlsp"))
	c1 := b.Attach("c1", nil)
	c2 := b.Attach("c2", nil)
	for _, c := range []*Client{c1, c2} {
		rc, err := c.Connect(c.Name, "user-"+c.Name, nil)
		if err != nil || rc != 0 {
			t.Fatal(rc, err)
		}
	}
	id, err := c1.Me()
	t.Log("me:", id, err)
	rc, between, err := c1.Subscribe(k + "/a/b/")
	t.Log(rc, between, err)
	_, err = c2.Publish(k+"/a/b/c/", []byte("hello"), false)
	t.Log(err)
	got, err := c1.Take()
	t.Log(got, err)
	_, err = c2.Publish(k+"/a/+/", []byte("hello"), false)
	got, _ = c2.Take()
	t.Log(got, err)
	t.Logf("total %v", time.Since(t0))
}
