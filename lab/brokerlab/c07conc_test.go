//go:build verif

// C07 part "conc" — replays requested at the same time by different connections. Every client owns one channel that holds
// retained messages with payloads naming the channel; all clients subscribe (last=1..3, load key) and unsubscribe in loops at
// the same time, on one broker with the disk or the in-memory store. What arrives between a SUBSCRIBE and its SUBACK must
// be exactly the last N messages of the client's OWN channel.
package brokerlab

import (
	"fmt"
	"os"
	"strings"
	"sync"
	"testing"

	"github.com/emitter-io/emitter/verif/lab/vk"
)

func TestC07Conc(t *testing.T) {
	rec := vk.New("C07", "conc")
	defer rec.Finish(t)
	rec.Rule("case = one real broker (inmemory / ssd store) with 6-8 channels each holding 5 retained messages (ttl) whose payloads name the channel and their sequence number (sizes 20 B..5 KB); one client per channel subscribes with ?last=N (N in 1..3, key with load permission) and unsubscribes again, 40 (thorough 300) times, all clients at the same time; the packets between every SUBSCRIBE and its SUBACK must be exactly the last N messages of that client's own channel; " +
		"non-trivial = every case; distinct = (store, seed, case)")
	n := vk.N(8, 200)
	for ci := 0; ci < n; ci++ {
		if !vk.Mine(ci) {
			continue
		}
		r := vk.NewRand(vk.Seed(), "C07conc", ci)
		opts := Opts{}
		kind := "inmemory"
		if ci%2 == 1 {
			d, err := os.MkdirTemp(os.Getenv("VERIF_SCRATCH"), "c07conc-")
			if err != nil {
				rec.Inconclusive(err.Error())
				continue
			}
			defer os.RemoveAll(d)
			opts.Storage, opts.StorageDir, kind = "ssd", d, "ssd"
		}
		b, err := NewBroker(opts)
		if err != nil {
			rec.Inconclusive(err.Error())
			continue
		}
		key := b.MustKey("#/", Perms("rwsl"))
		nch := r.Range(6, 8)
		pub := b.Attach("pub", nil)
		pub.Connect("pub", "", nil)
		payloads := make([][]string, nch)
		okSetup := true
		for c := 0; c < nch && okSetup; c++ {
			for i := 1; i <= 5; i++ {
				size := r.Range(20, 200)
				if r.Chance(25) {
					size = r.Range(2000, 5000)
				}
				p := fmt.Sprintf("ch%d-msg%d|", c, i) + strings.Repeat(string(rune('a'+c)), size)
				if _, err := pub.Publish(fmt.Sprintf("%s/r%d/?ttl=7200", key, c), []byte(p), false); err != nil {
					okSetup = false
					break
				}
				payloads[c] = append(payloads[c], p)
			}
		}
		if !okSetup {
			rec.Inconclusive("setup publish failed")
			b.Close()
			continue
		}
		rounds := vk.N(40, 300)
		var wg sync.WaitGroup
		var mu sync.Mutex
		bad, incon := "", ""
		start := make(chan struct{})
		for c := 0; c < nch; c++ {
			cl := b.Attach(fmt.Sprintf("c%d", c), nil)
			if rc, err := cl.Connect(cl.Name, "", nil); err != nil || rc != 0 {
				incon = "connect"
				continue
			}
			gr := vk.NewRand(vk.Seed(), fmt.Sprintf("C07conc-c%d", c), ci)
			wg.Add(1)
			go func(c int, cl *Client, gr *vk.Rand) {
				defer wg.Done()
				defer cl.Abort()
				<-start
				for k := 0; k < rounds; k++ {
					last := gr.Range(1, 3)
					topic := fmt.Sprintf("%s/r%d/?last=%d", key, c, last)
					rc, between, err := cl.Subscribe(topic)
					if err != nil || rc == 0x80 {
						mu.Lock()
						incon = fmt.Sprintf("subscribe: rc=%#x %v", rc, err)
						mu.Unlock()
						return
					}
					want := payloads[c][5-last:]
					got := map[string]int{}
					for _, p := range between {
						got[p.Payload]++
					}
					why := ""
					if len(between) != last {
						why = fmt.Sprintf("%d messages replayed, asked for the last %d", len(between), last)
					}
					for _, w := range want {
						if got[w] != 1 && why == "" {
							why = fmt.Sprintf("message %.12q of the own channel replayed %d times", w, got[w])
						}
					}
					for _, p := range between {
						if !strings.HasPrefix(p.Payload, fmt.Sprintf("ch%d-", c)) || p.Topic != fmt.Sprintf("r%d/", c) {
							why = fmt.Sprintf("a message of another channel was replayed: topic %q payload %.20q", p.Topic, p.Payload)
						}
					}
					if why != "" {
						mu.Lock()
						if bad == "" {
							bad = fmt.Sprintf("store %s, client of channel r%d/ (one of %d clients subscribing at the same time), subscribe #%d with last=%d: %s", kind, c, nch, k, last, why)
						}
						mu.Unlock()
						return
					}
					if err := cl.Unsubscribe(fmt.Sprintf("%s/r%d/", key, c)); err != nil {
						mu.Lock()
						incon = "unsubscribe: " + err.Error()
						mu.Unlock()
						return
					}
					cl.Take()
				}
			}(c, cl, gr)
		}
		close(start)
		wg.Wait()
		pub.Abort()
		b.Close()
		rec.Add("concurrent_replays_checked", int64(nch*rounds))
		rec.Case(vk.Hash("c07conc", kind, vk.Seed(), ci), true)
		switch {
		case bad != "":
			rec.Violation(ci, "conc/replay-mismatch/"+kind, bad, map[string]interface{}{"store": kind, "clients": nch})
		case incon != "":
			rec.Inconclusive(incon)
		}
		if rec.WantSample() {
			rec.Sample(map[string]interface{}{"case": ci, "store": kind, "clients": nch, "subscribes_each": rounds})
		}
	}
}
