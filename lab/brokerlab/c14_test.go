//go:build verif

// C14 — banning a key takes effect immediately and survives restarts (DESIGN §5 C14).
// Every sequence over {ban, unban, use} up to a bound, a restart after it (prefix-closed, so every
// restart point of every history is covered), and two second brokers that merge each ban payload.
package brokerlab

import (
	"fmt"
	"os"
	"strings"
	"sync"
	"testing"

	"github.com/emitter-io/emitter/verif/lab/vk"
	"github.com/weaveworks/mesh"
)

func TestC14(t *testing.T) {
	rec := vk.New("C14", "histories")
	defer rec.Finish(t)
	maxLen := vk.N(4, 7)
	rec.Rule(fmt.Sprintf("exhaustive: every sequence over {ban, unban, use} of length 1..%d on a real broker (requests through emitter/keyban/, uses = SUBSCRIBE and QoS-1 PUBLISH with the key), followed by a final use, "+
		"a restart of the broker on the same cluster directory and another use (the set of histories is prefix-closed, so this is a restart after every prefix of every history); the gossip payload of every ban/unban is captured at the sender and merged "+
		"into two other brokers (one that uses the key at every step, one that looks it up only at the end); a fourth broker receives the union the gossip sender would have coalesced on a busy link, a fifth joins late and receives the complete state; non-trivial = histories with >=1 ban; distinct = the operation string", maxLen))
	rec.Exhaustive(true)
	var hist []string
	var gen func(cur string)
	gen = func(cur string) {
		if len(cur) > 0 {
			hist = append(hist, cur)
		}
		if len(cur) == maxLen {
			return
		}
		for _, o := range "BUX" {
			gen(cur + string(o))
		}
	}
	gen("")
	for hi, h := range hist {
		if vk.Mine(hi) {
			runC14(rec, hi, h)
		}
	}
}

type c14Side struct {
	b           *Broker
	admin, user *Client
	name        string
}

func c14Side1(opts Opts, name string) (*c14Side, error) {
	b, err := NewBroker(opts)
	if err != nil {
		return nil, err
	}
	s := &c14Side{b: b, name: name}
	s.admin = b.Attach("admin", nil)
	s.user = b.Attach("user", nil)
	for _, c := range []*Client{s.admin, s.user} {
		if rc, err := c.Connect(c.Name, "", nil); err != nil || rc != 0 {
			b.Close()
			return nil, fmt.Errorf("connect: %v", err)
		}
	}
	return s, nil
}

func (s *c14Side) close() {
	s.admin.Abort()
	s.user.Abort()
	s.b.Close()
}

// use returns (subscribeAccepted, publishAccepted, err)
func (s *c14Side) use(key string, tag string) (bool, bool, error) {
	rc, _, err := s.user.Subscribe(key + "/a/b/")
	if err != nil {
		return false, false, err
	}
	s.user.Take()
	subOK := rc != 0x80
	if _, err := s.user.Publish(key+"/a/b/", []byte("use-"+tag), false); err != nil {
		return false, false, err
	}
	pubs, _ := s.user.Take()
	pubOK := true
	for _, p := range pubs {
		if p.Topic == "emitter/error/" {
			pubOK = false
		}
	}
	if subOK {
		// only reached while the model says "not banned" (or on a violation, after which the case stops)
		s.user.Unsubscribe(key + "/a/b/")
		s.user.Take()
	}
	return subOK, pubOK, nil
}

func runC14(rec *vk.Rec, hi int, h string) {
	dir, err := os.MkdirTemp(os.Getenv("VERIF_SCRATCH"), "c14-")
	if err != nil {
		rec.Inconclusive(err.Error())
		return
	}
	defer os.RemoveAll(dir)
	var mu sync.Mutex
	var payloads [][]byte
	var pending mesh.GossipData // what a busy link would hold: pending = pending.Merge(new), as the gossip sender does
	g := &NullGossip{OnBcast: func(d mesh.GossipData) {
		mu.Lock()
		for _, b := range d.Encode() {
			payloads = append(payloads, append([]byte(nil), b...))
		}
		if pending == nil {
			pending = d
		} else {
			pending = pending.Merge(d)
		}
		mu.Unlock()
	}}
	s1, err := c14Side1(Opts{ClusterDir: dir, Node: 1, Gossip: g}, "broker1")
	if err != nil {
		rec.Inconclusive(err.Error())
		return
	}
	lic := s1.b.LicString
	key := s1.b.MustKey("#/", Perms("rw"))
	s2a, err := c14Side1(Opts{License: lic, Node: 2}, "broker2-uses-at-every-step")
	if err != nil {
		s1.close()
		rec.Inconclusive(err.Error())
		return
	}
	s2b, err := c14Side1(Opts{License: lic, Node: 3}, "broker3-looks-up-only-at-the-end")
	if err != nil {
		s1.close()
		s2a.close()
		rec.Inconclusive(err.Error())
		return
	}
	s2c, err := c14Side1(Opts{License: lic, Node: 4}, "broker4-receives-the-coalesced-payload-at-the-end")
	if err != nil {
		s1.close()
		s2a.close()
		s2b.close()
		rec.Inconclusive(err.Error())
		return
	}
	s2d, err := c14Side1(Opts{License: lic, Node: 5}, "broker5-joins-late-and-receives-the-full-state")
	if err != nil {
		s1.close()
		s2a.close()
		s2b.close()
		s2c.close()
		rec.Inconclusive(err.Error())
		return
	}
	defer s2c.close()
	defer s2d.close()
	closed1 := false
	defer func() {
		if !closed1 {
			s1.close()
		}
		s2a.close()
		s2b.close()
	}()
	src := s1.b.Svc.VerifSwarm().VerifName()
	banned := false
	violated := false
	var trace []string
	fail := func(kind, desc string) {
		violated = true
		rec.Violation(hi, kind, fmt.Sprintf("history %s after %q: %s", h, strings.Join(trace, " "), desc), map[string]interface{}{"history": h, "trace": trace})
	}
	checkUse := func(s *c14Side, where string) {
		subOK, pubOK, err := s.use(key, fmt.Sprintf("%d-%d", hi, len(trace)))
		if err != nil {
			rec.Inconclusive("use: " + err.Error())
			violated = true
			return
		}
		rec.Inc("use_comparisons")
		trace = append(trace, fmt.Sprintf("use@%s=%v/%v", s.name, subOK, pubOK))
		if banned && (subOK || pubOK) {
			fail("banned-key-accepted/"+where, fmt.Sprintf("on %s the banned key was accepted (subscribe=%v publish=%v)", s.name, subOK, pubOK))
		}
		if !banned && (!subOK || !pubOK) {
			fail("unbanned-key-refused/"+where, fmt.Sprintf("on %s the key is not banned but was refused (subscribe=%v publish=%v)", s.name, subOK, pubOK))
		}
		if banned && !violated && where == "same-broker" {
			// other spellings of the banned key (characters a lenient decoder would skip): whether the broker takes them for the
			// key at all is not asserted, but while the key is banned none of them may be accepted
			for _, alt := range []string{key + "\n", key[:16] + "\r\n" + key[16:], key + "=", " " + key, key[:31] + "\n" + key[31:]} {
				so, po, err := s.use(alt, fmt.Sprintf("alt-%d-%d", hi, len(trace)))
				if err != nil {
					break // such a request may end the connection; not this property's business
				}
				rec.Inc("use_comparisons_alternative_spellings")
				if so || po {
					fail("banned-key-accepted/alternative-spelling", fmt.Sprintf("on %s the banned key written as %q was accepted (subscribe=%v publish=%v)", s.name, alt, so, po))
					break
				}
			}
		}
	}
	toggle := func(to bool) {
		mu.Lock()
		payloads = nil
		mu.Unlock()
		rep, err := s1.admin.Request("keyban", map[string]interface{}{"secret": s1.b.Master, "target": key, "banned": to})
		if err != nil { // the monitor's own connection failed: not an answer of the broker
			rec.Inconclusive("keyban request: " + err.Error())
			violated = true
			return
		}
		if rep.Status != 200 {
			fail("keyban-refused", fmt.Sprintf("%+v", rep))
			return
		}
		banned = to
		trace = append(trace, map[bool]string{true: "ban", false: "unban"}[to])
		mu.Lock()
		ps := payloads
		mu.Unlock()
		for _, p := range ps {
			for _, s := range []*c14Side{s2a, s2b} {
				if _, err := s.b.Svc.VerifSwarm().OnGossipBroadcast(src, p); err != nil {
					fail("gossip-merge-error", err.Error())
				}
			}
		}
		rec.Add("payloads_merged_into_other_brokers", int64(2*len(ps)))
	}
	for _, op := range h {
		if violated {
			break
		}
		switch op {
		case 'B':
			toggle(true)
		case 'U':
			toggle(false)
		case 'X':
			checkUse(s1, "same-broker")
			if !violated {
				checkUse(s2a, "other-broker-after-merge")
			}
		}
	}
	if !violated {
		checkUse(s1, "same-broker")
	}
	if !violated {
		checkUse(s2a, "other-broker-after-merge")
	}
	if !violated {
		checkUse(s2b, "other-broker-first-lookup-after-merge")
	}
	// a broker whose link was busy: it receives one payload, the union of everything queued for it
	if !violated {
		mu.Lock()
		pd := pending
		mu.Unlock()
		if pd != nil {
			for _, buf := range pd.Encode() {
				if _, err := s2c.b.Svc.VerifSwarm().OnGossipBroadcast(src, buf); err != nil {
					fail("gossip-merge-error", err.Error())
				}
			}
			rec.Inc("coalesced_payloads_delivered")
		}
		if !violated {
			checkUse(s2c, "other-broker-after-coalesced-payload")
		}
	}
	// a broker that joins late: it receives broker 1's complete state
	if !violated {
		if full := s1.b.Svc.VerifSwarm().Gossip(); full != nil {
			for _, buf := range full.Encode() {
				if _, err := s2d.b.Svc.VerifSwarm().OnGossip(buf); err != nil {
					fail("gossip-merge-error", err.Error())
				}
			}
			rec.Inc("full_states_delivered")
		}
		if !violated {
			checkUse(s2d, "other-broker-after-full-state")
		}
	}
	// restart on the same directory
	if !violated {
		s1.close()
		closed1 = true
		s1r, err := c14Side1(Opts{License: lic, ClusterDir: dir, Node: 1}, "broker1-restarted")
		if err != nil {
			fail("restart-failed", err.Error())
		} else {
			trace = append(trace, "restart")
			checkUse(s1r, "after-restart")
			rec.Inc("restarts")
			s1r.close()
		}
	}
	rec.Case(vk.Hash(h), strings.Contains(h, "B"))
	if rec.WantSample() && strings.Contains(h, "B") && len(h) >= 3 {
		rec.Sample(map[string]interface{}{"history": h, "trace": trace})
	}
}

// ---- concurrent uses while the ban is toggled ------------------------------------------------

func TestC14Conc(t *testing.T) {
	rec := vk.New("C14", "conc")
	defer rec.Finish(t)
	rec.Rule("case = one broker; an administrator connection toggles the ban of a key 150-300 times and, after every acknowledgement, uses the key on its own connection (the answer must reflect the toggle just acknowledged) while 6-10 other connections keep presenting the same key concurrently; " +
		"non-trivial = every case; distinct = (toggles, users, case)")
	n := vk.N(16, 240)
	for ci := 0; ci < n; ci++ {
		if !vk.Mine(ci) {
			continue
		}
		r := vk.NewRand(vk.Seed(), "C14conc", ci)
		s1, err := c14Side1(Opts{}, "broker")
		if err != nil {
			rec.Inconclusive(err.Error())
			continue
		}
		key := s1.b.MustKey("#/", Perms("rw"))
		nu := r.Range(6, 10)
		stop := make(chan struct{})
		var wg sync.WaitGroup
		for u := 0; u < nu; u++ {
			c := s1.b.Attach(fmt.Sprintf("u%d", u), nil)
			if rc, err := c.Connect(c.Name, "", nil); err != nil || rc != 0 {
				continue
			}
			wg.Add(1)
			go func(c *Client) {
				defer wg.Done()
				defer c.Abort()
				for {
					select {
					case <-stop:
						return
					default:
					}
					if _, err := c.Publish(key+"/conc/x/", []byte("u"), false); err != nil {
						return
					}
					c.Take()
				}
			}(c)
		}
		toggles := r.Range(150, 300)
		banned := false
		for i := 0; i < toggles; i++ {
			banned = !banned
			rep, err := s1.admin.Request("keyban", map[string]interface{}{"secret": s1.b.Master, "target": key, "banned": banned})
			if err != nil || rep.Status != 200 {
				rec.Inconclusive(fmt.Sprintf("keyban: %v", err))
				break
			}
			subOK, pubOK, err := s1.use(key, fmt.Sprintf("conc-%d", i))
			if err != nil {
				rec.Inconclusive("use: " + err.Error())
				break
			}
			rec.Inc("uses_right_after_a_toggle")
			if banned && (subOK || pubOK) {
				rec.Violation(ci, "conc/banned-key-accepted", fmt.Sprintf("toggle %d of %d (%d concurrent users): the ban was acknowledged but the next use was accepted (subscribe=%v publish=%v)", i, toggles, nu, subOK, pubOK), nil)
				break
			}
			if !banned && (!subOK || !pubOK) {
				rec.Violation(ci, "conc/unbanned-key-refused", fmt.Sprintf("toggle %d of %d (%d concurrent users): the unban was acknowledged but the next use was refused (subscribe=%v publish=%v)", i, toggles, nu, subOK, pubOK), nil)
				break
			}
		}
		close(stop)
		wg.Wait()
		rec.Case(vk.Hash("conc", toggles, nu, ci), true)
		if rec.WantSample() {
			rec.Sample(map[string]interface{}{"case": ci, "toggles": toggles, "concurrent_users": nu})
		}
		s1.close()
	}
}
