//go:build verif

// C12 part "splice" — strings assembled from TWO issued keys (DESIGN §10.5c-f). Someone who holds several keys can
// cut and paste their bytes without knowing the licence secret: every byte-level cut point, every 8-byte cipher
// block and every plaintext field position of one key is replaced by the other key's bytes (base64 decoded,
// spliced, re-encoded). The result must grant nothing that neither of the two originals grants.
//
// Pairs are obtained in two ways, and the matcher says which: "forced-equal-salt" = both keys built with the
// same salt on purpose (the worst case for a cipher that whitens its blocks with the salt), "issued-by-keygen" =
// both minted by the real keygen.CreateKey with the master key, as a key holder gets them (salts drawn at
// random by the broker; in the 2^-15 event that the two salts coincide the second key is requested again, up
// to 5 times, so that on a correct broker this class is about keys of different salts).
package brokerlab

import (
	"encoding/base64"
	"fmt"
	"sort"
	"testing"
	"time"

	"github.com/emitter-io/emitter/internal/security"
	"github.com/emitter-io/emitter/verif/lab/vk"
)

func TestC12Splice(t *testing.T) {
	rec := vk.New("C12", "splice")
	defer rec.Finish(t)
	rec.Rule("case = (licence version, pair of issued keys, splice): the 24 decoded bytes of key A with bytes [cut:], [:cut], each 8-byte block, each pair of blocks and each plaintext field position taken from key B, and the two 32-character strings cut and joined at every character; pairs with a forced equal salt (built raw) and pairs issued by keygen.CreateKey (random salts, re-issued while the salts coincide); " +
		"the spliced string's grants over the probe set on the real Service.Authorize must be a subset of grants(A) + grants(B); non-trivial = spliced strings that differ from both originals and are accepted for at least one probe; distinct = (licence, pair, spliced string)")
	probes := c12Probes()
	type spec struct {
		target string
		perms  string
	}
	pairs := [][2]spec{
		{{"a/b/", "rw"}, {"c/a/", "r"}},
		{{"a/b/", "r"}, {"a/b/", "wl"}},
		{{"a/#/", "w"}, {"b/#/", "rslp"}},
		{{"a/b/c/", "rwslp"}, {"b/c/a/", "p"}},
		{{"a/", "rwe"}, {"b/", "r"}},
		{{"a/+/", "r"}, {"b/c/", "w"}},
	}
	if vk.Tier() == "thorough" {
		for _, ta := range []string{"a/", "a/b/", "#/", "c/#/"} {
			for _, pa := range []string{"r", "w", "rwslp", "e"} {
				pairs = append(pairs, [2]spec{{ta, pa}, {"b/a/", "rw"}}, [2]spec{{ta, pa}, {"b/", "l"}})
			}
		}
	}
	caseNo := 0
	for lic := 1; lic <= 3; lic++ {
		b, err := NewBroker(Opts{LicenseVersion: lic})
		if err != nil {
			rec.Inconclusive(err.Error())
			continue
		}
		for pi, pr := range pairs {
			for _, how := range []string{"forced-equal-salt", "issued-by-keygen"} {
				var ka, kb string
				exp := time.Unix(0, 0)
				switch how {
				case "forced-equal-salt":
					mk := func(s spec) string {
						return b.RawKey(func(k security.Key) {
							k.SetSalt(uint16(0x2000 + pi))
							k.SetPermissions(Perms(s.perms))
							k.SetExpires(exp)
							k.SetTarget(s.target)
						})
					}
					ka, kb = mk(pr[0]), mk(pr[1])
				default:
					var e1, e2 error
					ka, e1 = b.Key(pr[0].target, Perms(pr[0].perms), exp)
					kb, e2 = b.Key(pr[1].target, Perms(pr[1].perms), exp)
					if e1 != nil || e2 != nil {
						rec.Note(fmt.Sprintf("keygen refused %v / %v", e1, e2))
						continue
					}
					pa, _ := b.Cipher.DecryptKey([]byte(ka))
					for try := 0; try < 5; try++ {
						pb, _ := b.Cipher.DecryptKey([]byte(kb))
						if len(pa) != 24 || len(pb) != 24 || pa.Salt() != pb.Salt() {
							break
						}
						rec.Inc("reissued_for_equal_salt")
						kb, _ = b.Key(pr[1].target, Perms(pr[1].perms), exp)
					}
				}
				ra, ea := base64.RawURLEncoding.DecodeString(ka)
				rb, eb := base64.RawURLEncoding.DecodeString(kb)
				if ea != nil || eb != nil || len(ra) != 24 || len(rb) != 24 {
					rec.Violation(caseNo, "splice/key-not-24-bytes", fmt.Sprintf("licence v%d: issued keys %q %q do not decode to 24 bytes", lic, ka, kb), nil)
					continue
				}
				union := b.grants(ka, probes)
				for k := range b.grants(kb, probes) {
					union[k] = true
				}
				enc := func(x []byte) string { return base64.RawURLEncoding.EncodeToString(x) }
				var muts []string
				for cut := 1; cut < 24; cut++ {
					muts = append(muts, enc(append(append([]byte(nil), ra[:cut]...), rb[cut:]...)), enc(append(append([]byte(nil), rb[:cut]...), ra[cut:]...)))
				}
				for cut := 1; cut < 32; cut++ { // the same on the 32 characters of the strings
					muts = append(muts, ka[:cut]+kb[cut:], kb[:cut]+ka[cut:])
				}
				for mask := 1; mask < 7; mask++ { // which 8-byte blocks come from B
					c := append([]byte(nil), ra...)
					for blk := 0; blk < 3; blk++ {
						if mask&(1<<uint(blk)) != 0 {
							copy(c[blk*8:blk*8+8], rb[blk*8:blk*8+8])
						}
					}
					muts = append(muts, enc(c))
				}
				for _, f := range c12Fields {
					c := append([]byte(nil), ra...)
					copy(c[f.from:f.to], rb[f.from:f.to])
					d := append([]byte(nil), rb...)
					copy(d[f.from:f.to], ra[f.from:f.to])
					muts = append(muts, enc(c), enc(d))
				}
				for _, m := range muts {
					caseNo++
					if m == ka || m == kb || !vk.Mine(caseNo) {
						continue
					}
					g := b.grants(m, probes)
					rec.Case(vk.Hash(lic, pi, how, m), len(g) > 0)
					if len(g) > 0 {
						rec.Inc("splices_accepted_for_some_probe")
					}
					var extra []string
					for k := range g {
						if !union[k] {
							extra = append(extra, k)
						}
					}
					if len(extra) == 0 {
						continue
					}
					sort.Strings(extra)
					if len(extra) > 6 {
						extra = append(extra[:6], fmt.Sprintf("…(%d more)", len(extra)-6))
					}
					// classification: under the stream ciphers of licence v2/v3 a splice that leaves master id, contract and
					// signature as they were is the known F4 class (bytes 12..23 of the ciphertext can be rewritten at will);
					// under v1 (XTEA) the class is named after the way the pair was obtained
					matcher := fmt.Sprintf("v%d/splice-escalation/%s", lic, how)
					if lic >= 2 {
						pa, e1 := b.Cipher.DecryptKey([]byte(ka))
						pm, e2 := b.Cipher.DecryptKey([]byte(m))
						if e1 == nil && e2 == nil && len(pa) == 24 && len(pm) == 24 && string(pa[2:12]) == string(pm[2:12]) {
							matcher = fmt.Sprintf("v%d/escalation/identity-fields-intact", lic)
						} else {
							matcher += "/identity-fields-changed"
						}
					}
					rec.Violation(caseNo, matcher,
						fmt.Sprintf("licence v%d, keys A(target=%s perms=%q)=%s and B(target=%s perms=%q)=%s (%s): the spliced string %s grants %v, which neither A nor B grants", lic, pr[0].target, pr[0].perms, ka, pr[1].target, pr[1].perms, kb, how, m, extra),
						map[string]interface{}{"licence": lic, "A": ka, "B": kb, "how": how, "spliced": m, "extra_grants": extra})
				}
				if rec.WantSample() {
					rec.Sample(map[string]interface{}{"licence": lic, "A": fmt.Sprintf("%s %q", pr[0].target, pr[0].perms), "B": fmt.Sprintf("%s %q", pr[1].target, pr[1].perms), "how": how, "splices": len(muts)})
				}
			}
		}
		b.Close()
	}
}
