//go:build verif

// C14, crash variant: the broker process is SIGKILLed right after a ban/unban acknowledgement
// (instead of being closed) and a fresh process on the same cluster directory must enforce it.
package brokerlab

import (
	"bufio"
	"fmt"
	"os"
	"os/exec"
	"strings"
	"syscall"
	"testing"
	"time"

	"github.com/emitter-io/emitter/verif/lab/vk"
)

// TestC14Child: a broker on VERIF_C14_DIR with licence VERIF_C14_LICENSE executing commands from stdin.
func TestC14Child(t *testing.T) {
	dir := os.Getenv("VERIF_C14_DIR")
	if dir == "" {
		t.Skip("child only")
	}
	out := bufio.NewWriter(os.Stdout)
	say := func(f string, a ...interface{}) { fmt.Fprintf(out, f+"\n", a...); out.Flush() }
	s, err := c14Side1(Opts{License: os.Getenv("VERIF_C14_LICENSE"), ClusterDir: dir, Node: 1}, "child")
	if err != nil {
		say("FAIL %v", err)
		os.Exit(3)
	}
	key := os.Getenv("VERIF_C14_KEY")
	say("READY")
	sc := bufio.NewScanner(os.Stdin)
	n := 0
	for sc.Scan() {
		n++
		switch cmd := sc.Text(); cmd {
		case "ban", "unban":
			rep, err := s.admin.Request("keyban", map[string]interface{}{"secret": s.b.Master, "target": key, "banned": cmd == "ban"})
			if err != nil || rep.Status != 200 {
				say("FAIL keyban %v", err)
				os.Exit(3)
			}
			say("ACK %s", cmd)
		case "use":
			a, b, err := s.use(key, fmt.Sprint(n))
			if err != nil {
				say("FAIL use %v", err)
				os.Exit(3)
			}
			say("USE %v %v", a, b)
		case "quit":
			s.close()
			say("BYE")
			os.Exit(0)
		}
	}
	os.Exit(0)
}

type c14Proc struct {
	cmd *exec.Cmd
	in  *bufio.Writer
	out *bufio.Scanner
}

func c14Start(self, dir, lic, key string) (*c14Proc, error) {
	cmd := exec.Command(self, "-test.run", "^TestC14Child$", "-test.timeout", "0")
	cmd.Env = append(os.Environ(), "VERIF_C14_DIR="+dir, "VERIF_C14_LICENSE="+lic, "VERIF_C14_KEY="+key, "VERIF_OUT=")
	stdin, _ := cmd.StdinPipe()
	stdout, _ := cmd.StdoutPipe()
	if err := cmd.Start(); err != nil {
		return nil, err
	}
	p := &c14Proc{cmd: cmd, in: bufio.NewWriter(stdin), out: bufio.NewScanner(stdout)}
	line, err := p.read()
	if err != nil || line != "READY" {
		cmd.Process.Kill()
		cmd.Wait()
		return nil, fmt.Errorf("child did not start: %q %v", line, err)
	}
	return p, nil
}

func (p *c14Proc) read() (string, error) {
	ch := make(chan string, 1)
	go func() {
		for p.out.Scan() {
			l := p.out.Text()
			if l == "READY" || strings.HasPrefix(l, "ACK") || strings.HasPrefix(l, "USE") || strings.HasPrefix(l, "FAIL") || l == "BYE" {
				ch <- l
				return
			}
		}
		ch <- ""
	}()
	select {
	case l := <-ch:
		if l == "" {
			return "", fmt.Errorf("child ended")
		}
		return l, nil
	case <-time.After(60 * time.Second):
		return "", fmt.Errorf("child watchdog")
	}
}

func (p *c14Proc) do(cmd string) (string, error) {
	p.in.WriteString(cmd + "\n")
	p.in.Flush()
	return p.read()
}

func (p *c14Proc) kill() {
	p.cmd.Process.Signal(syscall.SIGKILL)
	p.cmd.Wait()
}

func TestC14Kill(t *testing.T) {
	rec := vk.New("C14", "kill")
	defer rec.Finish(t)
	rec.Rule("case = one seeded history over {ban, unban, use} of length 2-8 executed by a broker in a child process; the process is SIGKILLed immediately after the acknowledgement of the last ban/unban (or after a following use), " +
		"a fresh process is started on the same cluster directory and the key is used: it must be refused exactly if the last acknowledged toggle was a ban; non-trivial = histories whose last toggle is a ban or that toggle at least twice; distinct = the operation string")
	self := os.Getenv("VERIF_BIN")
	if self == "" {
		self, _ = os.Executable()
	}
	n := vk.N(12, 400)
	for ci := 0; ci < n; ci++ {
		if !vk.Mine(ci) {
			continue
		}
		r := vk.NewRand(vk.Seed(), "C14kill", ci)
		dir, err := os.MkdirTemp(os.Getenv("VERIF_SCRATCH"), "c14k-")
		if err != nil {
			rec.Inconclusive(err.Error())
			continue
		}
		func() {
			defer os.RemoveAll(dir)
			pb, err := NewBroker(Opts{})
			if err != nil {
				rec.Inconclusive(err.Error())
				return
			}
			lic, key := pb.LicString, pb.MustKey("#/", Perms("rw"))
			pb.Close()
			p, err := c14Start(self, dir, lic, key)
			if err != nil {
				rec.Inconclusive(err.Error())
				return
			}
			banned := false
			toggles := 0
			var hist []string
			L := r.Range(2, 8)
			for i := 0; i < L; i++ {
				op := []string{"ban", "unban", "use", "ban"}[r.Intn(4)]
				if i == L-1 && r.Chance(70) {
					op = []string{"ban", "unban"}[r.Intn(2)]
				}
				hist = append(hist, op)
				rep, err := p.do(op)
				if err != nil || strings.HasPrefix(rep, "FAIL") {
					rec.Inconclusive(fmt.Sprintf("child: %v %s", err, rep))
					p.kill()
					return
				}
				switch op {
				case "ban":
					if !banned {
						toggles++
					}
					banned = true
				case "unban":
					if banned {
						toggles++
					}
					banned = false
				case "use":
					want := fmt.Sprintf("USE %v %v", !banned, !banned)
					if rep != want {
						rec.Violation(ci, "kill/use-before-kill", fmt.Sprintf("history %v: %s, expected %s", hist, rep, want), map[string]interface{}{"history": hist})
						p.kill()
						return
					}
				}
			}
			p.kill() // right after the last acknowledgement
			hist = append(hist, "SIGKILL", "restart", "use")
			p2, err := c14Start(self, dir, lic, key)
			if err != nil {
				rec.Violation(ci, "kill/restart-failed", fmt.Sprintf("history %v: %v", hist, err), map[string]interface{}{"history": hist})
				return
			}
			rep, err := p2.do("use")
			p2.do("quit")
			p2.cmd.Wait()
			rec.Inc("kill_restarts")
			want := fmt.Sprintf("USE %v %v", !banned, !banned)
			if err != nil || rep != want {
				kind := "kill/ban-lost-after-crash"
				if !banned {
					kind = "kill/unban-lost-after-crash"
				}
				rec.Violation(ci, kind, fmt.Sprintf("history %v: after the restart %s (%v), expected %s", hist, rep, err, want), map[string]interface{}{"history": hist})
			}
			rec.Case(vk.Hash(strings.Join(hist, ",")), banned || toggles >= 2)
			if rec.WantSample() {
				rec.Sample(map[string]interface{}{"history": hist, "banned_at_kill": banned, "after_restart": rep})
			}
		}()
	}
}
