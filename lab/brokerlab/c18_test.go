//go:build verif

// C18 — presence reports who is subscribed (DESIGN §5 C18).
package brokerlab

import (
	"encoding/json"
	"fmt"
	"sort"
	"strings"
	"testing"
	"time"

	"github.com/emitter-io/emitter/verif/lab/vk"
)

type c18Conn struct {
	cl    *Client
	name  string
	id    string
	user  string
	alive bool
	subs  map[string][]string // filter -> levels
	watch map[string][]string // watched channel -> levels
}

type c18Env struct {
	b      *Broker
	kAll   string
	kPres  string
	kNoP   string
	helper *Client
	hid    string
	sn     int
}

func isPrefix(p, l []string) bool {
	if len(p) > len(l) {
		return false
	}
	for i := range p {
		if p[i] != l[i] {
			return false
		}
	}
	return true
}

// notifications a watcher has received and not yet compared, excluding the helper's sentinels
func (e *c18Env) collect(w *c18Conn) ([]string, error) {
	pubs, err := w.cl.Take()
	if err != nil {
		return nil, err
	}
	var out []string
	for _, p := range pubs {
		if p.Topic != "emitter/presence/" {
			continue
		}
		var n c08Note
		if json.Unmarshal([]byte(p.Payload), &n) != nil {
			out = append(out, "undecodable "+p.Payload)
			continue
		}
		if n.Who.ID == e.hid {
			continue
		}
		out = append(out, n.Event+" "+n.Channel+" "+n.Who.ID)
	}
	return out, nil
}

// barrier: logical drain of the presence queue (see Broker.PresenceBarrier).
func (e *c18Env) barrier(conns []*c18Conn) error {
	e.sn++
	return e.b.PresenceBarrier(e.helper, e.kAll, e.sn)
}

func TestC18(t *testing.T) {
	rec := vk.New("C18", "seq")
	defer rec.Finish(t)
	rec.Rule("case = one seeded sequential history of ~50 subscribe/unsubscribe/disconnect/presence requests (status and/or changes, exact and parent channels) by 2-5 clients on a real broker; " +
		"after every step a sentinel barrier, then every watcher's new notifications and every status response are compared with the model; " +
		"non-trivial = >=2 status responses with a non-empty expected who list, >=3 notifications expected, and >=1 disconnect of a subscriber or >=1 cancel of a watch; distinct = hash of the request list")
	n := vk.N(100, 4000)
	for ci := 0; ci < n; ci++ {
		if vk.Mine(ci) {
			runC18(rec, ci)
		}
	}
}

func runC18(rec *vk.Rec, ci int) {
	r := vk.NewRand(vk.Seed(), "C18", ci)
	b, err := NewBroker(Opts{})
	if err != nil {
		rec.Inconclusive("broker: " + err.Error())
		return
	}
	defer b.Close()
	e := &c18Env{b: b}
	e.kAll = b.MustKey("#/", Perms("rw"))
	e.kPres = b.MustKey("#/", Perms("rwp"))
	e.kNoP = b.MustKey("#/", Perms("rw"))
	e.helper = b.Attach("helper", nil)
	if rc, err := e.helper.Connect("helper", "", nil); err != nil || rc != 0 {
		rec.Inconclusive("helper connect")
		return
	}
	if e.hid, err = e.helper.Me(); err != nil {
		rec.Inconclusive("helper me: " + err.Error())
		return
	}
	var conns []*c18Conn
	var steps []string
	violated := false
	fail := func(kind, desc string) {
		violated = true
		rec.Violation(ci, kind, fmt.Sprintf("step %d: %s", len(steps), desc), map[string]interface{}{"steps": steps})
	}
	seqc := 0
	newConn := func() *c18Conn {
		seqc++
		c := &c18Conn{name: fmt.Sprintf("c%d", seqc), subs: map[string][]string{}, watch: map[string][]string{}, alive: true}
		if r.Chance(70) {
			c.user = fmt.Sprintf("user%d", seqc)
		}
		c.cl = b.Attach(c.name, nil)
		c.cl.KeepBetween = true // a watcher's own (asynchronous) notification may arrive before its SUBACK
		if rc, err := c.cl.Connect(c.name, c.user, nil); err != nil || rc != 0 {
			return nil
		}
		id, err := c.cl.Me()
		if err != nil {
			return nil
		}
		c.id = id
		conns = append(conns, c)
		return c
	}
	nc := r.Range(2, 5)
	for i := 0; i < nc; i++ {
		if newConn() == nil {
			rec.Inconclusive("connect")
			return
		}
	}
	defer func() {
		for _, c := range conns {
			c.cl.Abort()
		}
		e.helper.Abort()
	}()
	filters := [][]string{{"a"}, {"a", "b"}, {"a", "b", "c"}, {"a", "+"}, {"+", "b"}, {"b"}, {"b", "a"}, {"a", "c"}}
	watchable := [][]string{{"a"}, {"a", "b"}, {"b"}}
	queryable := [][]string{{"a"}, {"a", "b"}, {"a", "b", "c"}, {"b"}, {"b", "a"}, {"a", "c"}, {"x"}}
	// in two cases of three the level names are words the broker itself uses for its system channels (ordinary channels may
	// be called presence/lobby/ or a/keygen/ like any other)
	rename := map[string]string{}
	switch ci % 3 {
	case 1:
		rename = map[string]string{"a": "presence", "c": "keygen"}
	case 2:
		rename = map[string]string{"b": "presence", "c": "emitter", "x": "link"}
	}
	for _, l := range [][][]string{filters, watchable, queryable} {
		for _, lv := range l {
			for i := range lv {
				if n, ok := rename[lv[i]]; ok {
					lv[i] = n
				}
			}
		}
	}
	live := func() []*c18Conn {
		var l []*c18Conn
		for _, c := range conns {
			if c.alive {
				l = append(l, c)
			}
		}
		return l
	}
	// expected new notifications per watcher name since the last comparison
	expOrdered := map[string][]string{}
	expTail := map[string][]string{}
	notify := func(ev string, lv []string, who *c18Conn, tail bool) {
		for _, w := range conns {
			if !w.alive {
				continue
			}
			hit := false
			for _, wl := range w.watch {
				if isPrefix(wl, lv) {
					hit = true // one presence subscription per watched channel; a message is delivered once per connection
				}
			}
			if hit {
				s := ev + " " + chanStr(lv) + " " + who.id
				if tail {
					expTail[w.name] = append(expTail[w.name], s)
				} else {
					expOrdered[w.name] = append(expOrdered[w.name], s)
				}
				rec.Inc("notifications_expected")
			}
		}
	}
	statusNonEmpty, notesExpected, disconnects, cancels := 0, 0, 0, 0
	var compare func()
	compare = func() {
		if err := e.barrier(conns); err != nil {
			rec.Inconclusive("barrier: " + err.Error())
			violated = true
			return
		}
		for _, w := range conns {
			if !w.alive {
				continue
			}
			got, err := e.collect(w)
			if err != nil {
				fail("stream", err.Error())
				return
			}
			ord, tail := expOrdered[w.name], expTail[w.name]
			notesExpected += len(ord) + len(tail)
			rec.Inc("watcher_comparisons")
			// the property orders notifications per connection only: project on the connection id (last field)
			proj := func(l []string) map[string][]string {
				m := map[string][]string{}
				for _, x := range l {
					id := x[strings.LastIndex(x, " ")+1:]
					m[id] = append(m[id], x)
				}
				return m
			}
			gp, op, tp := proj(got), proj(ord), proj(tail)
			okk := len(got) == len(ord)+len(tail)
			for id, g := range gp {
				o, t := op[id], tp[id]
				if len(g) != len(o)+len(t) || strings.Join(g[:len(o)], ",") != strings.Join(o, ",") || !sameMultiset(g[len(o):], t) {
					okk = false
				}
			}
			if !okk {
				kind := "notification-mismatch"
				if len(w.watch) == 0 {
					kind = "notification-after-cancel"
				}
				fail(kind, fmt.Sprintf("watcher %s (watching %v) received %v; expected per connection, in order, %v then (any order) %v", w.name, keysOfL(w.watch), got, ord, tail))
				return
			}
		}
		expOrdered, expTail = map[string][]string{}, map[string][]string{}
	}

	compareNow := compare
	pendingSteps := 0
	compare = func() { // batched: notifications accumulate over a few steps and are compared per connection
		pendingSteps++
		if pendingSteps >= 5 {
			pendingSteps = 0
			compareNow()
		}
	}
	for s := 0; s < 50 && !violated; s++ {
		lv := live()
		if len(lv) < 2 {
			if newConn() == nil {
				rec.Inconclusive("connect")
				return
			}
			steps = append(steps, "connect "+conns[len(conns)-1].name)
			continue
		}
		c := lv[r.Intn(len(lv))]
		x := r.Intn(100)
		switch {
		case x < 30: // subscribe
			f := filters[r.Intn(len(filters))]
			steps = append(steps, fmt.Sprintf("%s sub %s", c.name, chanStr(f)))
			rc, _, err := c.cl.Subscribe(e.kAll + "/" + chanStr(f))
			if err != nil || rc != 0 {
				fail("no-reply", fmt.Sprintf("subscribe rc=%d %v", rc, err))
				break
			}
			if _, held := c.subs[chanStr(f)]; !held {
				c.subs[chanStr(f)] = f
				notify("subscribe", f, c, false)
			}
			compare()
		case x < 48: // unsubscribe
			var f []string
			if len(c.subs) > 0 && r.Chance(75) {
				k := keysOfL(c.subs)
				f = c.subs[k[r.Intn(len(k))]]
			} else {
				f = filters[r.Intn(len(filters))]
			}
			steps = append(steps, fmt.Sprintf("%s unsub %s", c.name, chanStr(f)))
			if err := c.cl.Unsubscribe(e.kAll + "/" + chanStr(f)); err != nil {
				fail("no-reply", err.Error())
				break
			}
			if _, held := c.subs[chanStr(f)]; held {
				delete(c.subs, chanStr(f))
				notify("unsubscribe", f, c, false)
			}
			compare()
		case x < 58: // disconnect
			steps = append(steps, fmt.Sprintf("%s disconnect", c.name))
			if r.Bool() {
				c.cl.Disconnect()
			} else {
				c.cl.C.CloseWrite()
			}
			if !c.cl.WaitClosed(120 * time.Second) {
				rec.Inconclusive("broker did not close")
				return
			}
			c.cl.Abort()
			c.alive = false
			if len(c.subs) > 0 {
				disconnects++
			}
			for _, f := range c.subs {
				notify("unsubscribe", f, c, true)
			}
			compare()
			if r.Chance(60) {
				if nn := newConn(); nn == nil {
					rec.Inconclusive("connect")
					return
				} else {
					steps = append(steps, "connect "+nn.name)
				}
			}
		case x < 80: // presence status (optionally with changes)
			q := queryable[r.Intn(len(queryable))]
			req := map[string]interface{}{"key": e.kPres, "channel": chanStr(q), "status": true}
			desc := fmt.Sprintf("%s status %s", c.name, chanStr(q))
			var ch *bool
			watchedNow := false
			if r.Chance(25) {
				for _, wl := range watchable {
					if chanStr(wl) == chanStr(q) {
						v := r.Chance(70)
						ch = &v
						req["changes"] = v
						desc += fmt.Sprintf(" changes=%v", v)
						watchedNow = true
					}
				}
			}
			if r.Chance(15) { // channel given without the trailing slash: the handler adds it
				req["channel"] = strings.TrimSuffix(chanStr(q), "/")
			}
			steps = append(steps, desc)
			if ch != nil {
				compareNow() // settle the queue before a watch begins or is cancelled
				if violated {
					break
				}
			}
			rep, err := c.cl.Request("presence", req)
			if err != nil || rep.Status != 200 {
				fail("presence-refused", fmt.Sprintf("%v %+v", err, rep))
				break
			}
			if watchedNow {
				if *ch {
					c.watch[chanStr(q)] = q
				} else {
					if _, ok := c.watch[chanStr(q)]; ok {
						cancels++
					}
					delete(c.watch, chanStr(q))
				}
			}
			var want []string
			for _, o := range conns {
				if !o.alive {
					continue
				}
				for _, f := range o.subs {
					if refMatch(false, f, q) {
						want = append(want, o.id+"/"+o.user)
						break
					}
				}
			}
			var got []string
			if who, ok := rep.Fields["who"].([]interface{}); ok {
				for _, w := range who {
					m, _ := w.(map[string]interface{})
					id, _ := m["id"].(string)
					u, _ := m["username"].(string)
					got = append(got, id+"/"+u)
				}
			}
			sort.Strings(want)
			sort.Strings(got)
			rec.Inc("status_comparisons")
			if len(want) > 0 {
				statusNonEmpty++
			}
			if strings.Join(want, ",") != strings.Join(got, ",") {
				fail("status-mismatch", fmt.Sprintf("status %s: who=%v, model=%v", chanStr(q), got, want))
				break
			}
			if ev, _ := rep.Fields["event"].(string); ev != "status" {
				fail("status-mismatch", "event field is "+ev)
			}
			compare()
		case x < 92: // changes only
			wl := watchable[r.Intn(len(watchable))]
			on := r.Chance(65)
			steps = append(steps, fmt.Sprintf("%s changes=%v %s", c.name, on, chanStr(wl)))
			compareNow() // settle the queue before a watch begins or is cancelled
			if violated {
				break
			}
			rep, err := c.cl.Request("presence", map[string]interface{}{"key": e.kPres, "channel": chanStr(wl), "status": false, "changes": on})
			if err != nil || rep.Status != 200 {
				fail("presence-refused", fmt.Sprintf("%v %+v", err, rep))
				break
			}
			if on {
				c.watch[chanStr(wl)] = wl
			} else {
				if _, ok := c.watch[chanStr(wl)]; ok {
					cancels++
				}
				delete(c.watch, chanStr(wl))
			}
			compare()
		default: // presence request with a key lacking the presence permission: refused, changes nothing
			wl := watchable[r.Intn(len(watchable))]
			steps = append(steps, fmt.Sprintf("%s presence-without-permission %s", c.name, chanStr(wl)))
			rep, err := c.cl.Request("presence", map[string]interface{}{"key": e.kNoP, "channel": chanStr(wl), "status": true, "changes": true})
			if err != nil {
				fail("no-reply", err.Error())
				break
			}
			if rep.Status == 200 { // any refusal will do; the documented status is 401
				fail("presence-without-permission-accepted", rep.Raw)
				break
			}
			compare()
		}
	}
	if !violated {
		compareNow()
	}
	h := []interface{}{}
	for _, s := range steps {
		h = append(h, s)
	}
	rec.Case(vk.Hash(h...), statusNonEmpty >= 2 && notesExpected >= 3 && (disconnects >= 1 || cancels >= 1))
	if rec.WantSample() {
		k := len(steps)
		if k > 14 {
			k = 14
		}
		rec.Sample(map[string]interface{}{"case": ci, "first_steps": steps[:k], "steps": len(steps), "notifications_expected": notesExpected})
	}
}

func keysOfL(m map[string][]string) []string {
	var k []string
	for s := range m {
		k = append(k, s)
	}
	sort.Strings(k)
	return k
}
