//go:build verif

// C07 — messages are retained and replayed exactly as requested (DESIGN §5 C07).
package brokerlab

import (
	"fmt"
	"os"
	"sort"
	"strings"
	"testing"
	"time"

	"github.com/emitter-io/emitter/internal/message"
	"github.com/emitter-io/emitter/internal/security"
	"github.com/emitter-io/emitter/verif/lab/mqttref"
	"github.com/emitter-io/emitter/verif/lab/vk"
)

type c07Entry struct {
	levels  []string
	payload string
	ttl     uint32
	idx     int
	t       int64 // second of the message id when it is known exactly (publish started and was acknowledged within one second), else 0
}

const defaultRetention = 2592000

func TestC07(t *testing.T) {
	rec := vk.New("C07", "seq")
	defer rec.Finish(t)
	rec.Rule("case = one seeded sequential history of ~45 publishes (retain / ttl=k / neither, keys with and without store), last wills and subscriptions " +
		"(keys with and without load, last in {absent,0,1,2,5,1000}, from/until windows) by 2-3 clients on a real broker (inmemory or ssd storage); after every publish the store is read " +
		"back through Storage.Query and compared with the model log, and the packets between every SUBSCRIBE and its SUBACK are compared with the model's last-N; " +
		"non-trivial = >=2 replays with a non-empty expected set, >=1 replay expected empty because of a missing permission, >=3 stored and >=2 not-stored publishes; distinct = hash of the request list")
	n := vk.N(120, 4000)
	for ci := 0; ci < n; ci++ {
		if vk.Mine(ci) {
			runC07(rec, ci)
		}
	}
}

func runC07(rec *vk.Rec, ci int) {
	r := vk.NewRand(vk.Seed(), "C07", ci)
	opts := Opts{}
	if ci%3 == 2 {
		d, err := os.MkdirTemp(os.Getenv("VERIF_SCRATCH"), "c07ssd-")
		if err != nil {
			rec.Inconclusive(err.Error())
			return
		}
		defer os.RemoveAll(d)
		opts.Storage, opts.StorageDir = "ssd", d
	}
	b, err := NewBroker(opts)
	if err != nil {
		rec.Inconclusive("broker: " + err.Error())
		return
	}
	defer b.Close()
	keys := map[string]string{}
	for _, p := range []string{"rw", "rws", "rwl", "rwsl", "rl", "ws"} {
		keys[p] = b.MustKey("#/", Perms(p))
	}
	nc := r.Range(2, 3)
	var cs []*Client
	for i := 0; i < nc; i++ {
		cl := b.Attach(fmt.Sprintf("c%d", i), nil)
		if rc, err := cl.Connect(fmt.Sprintf("c07-%d-%d", ci, i), "", nil); err != nil || rc != 0 {
			rec.Inconclusive(fmt.Sprintf("connect rc=%d err=%v", rc, err))
			return
		}
		cs = append(cs, cl)
	}
	defer func() {
		for _, c := range cs {
			c.Abort()
		}
	}()
	var log []c07Entry
	var steps []string
	violated := false
	fail := func(kind, desc string) {
		violated = true
		rec.Violation(ci, kind, fmt.Sprintf("storage=%s step %d: %s", opts.Storage, len(steps), desc), map[string]interface{}{"storage": opts.Storage, "steps": steps})
	}
	chans := [][]string{{"a"}, {"a", "b"}, {"a", "b", "c"}, {"a", "c"}, {"a", "b", "b"}}
	filters := [][]string{{"a"}, {"a", "b"}, {"a", "b", "c"}, {"a", "+"}, {"a", "+", "c"}, {"a", "c"}, {"a", "x"}}
	st := b.Svc.VerifStorage()
	rootSsid := func() message.Ssid {
		ch := security.ParseChannel([]byte("k/a/"))
		return message.NewSsid(b.Contract, ch.Query)
	}()
	checkStore := func() {
		f, err := st.Query(rootSsid, time.Unix(0, 0), time.Unix(0, 0), nil, 10000)
		if err != nil {
			fail("store-query-error", err.Error())
			return
		}
		got := map[string]int{}
		for _, m := range f {
			got[fmt.Sprintf("%s|%s|%d|%d", m.Channel, m.Payload, m.TTL, m.Contract())]++
		}
		want := map[string]int{}
		for _, e := range log {
			want[fmt.Sprintf("%s|%s|%d|%d", chanStr(e.levels), e.payload, e.ttl, b.Contract)]++
		}
		rec.Inc("store_readbacks")
		for k, n := range want {
			if got[k] != n {
				kind := "not-stored"
				if got[k] > n {
					kind = "stored-twice"
				}
				fail(kind, fmt.Sprintf("store holds %d copies of %s, model %d", got[k], k, n))
				return
			}
		}
		for k, n := range got {
			if want[k] != n {
				fail("stored-but-should-not", fmt.Sprintf("store holds %d copies of %s, model %d", n, k, want[k]))
				return
			}
		}
	}
	seq, replaysNonEmpty, replaysDenied, storedN, notStoredN := 0, 0, 0, 0, 0
	bigBodies := 0
	now := time.Now().Unix()
	for s := 0; s < 45 && !violated; s++ {
		c := cs[r.Intn(nc)]
		x := r.Intn(100)
		switch {
		case x < 50: // publish
			seq++
			lv := chans[r.Intn(len(chans))]
			kp := r.Pick("rw", "rws", "rwsl", "ws", "rws")
			retain := r.Chance(40)
			ttl := 0
			if r.Chance(40) {
				ttl = r.Pick3(3600, 86400, 7200)
				if r.Chance(35) { // the whole range a 32-bit ttl can hold (4294967295 is the marker of retained messages: left out)
					ttl = []int{3601, 65535, 65536, 16777216, 2147483647, 2147483648, 3000000000, 4294967294}[r.Intn(8)]
				}
			}
			payload := fmt.Sprintf("m%d", seq)
			if bigBodies < 4 && r.Chance(15) { // a large, incompressible body (at most four per case: everything a case stores
				// must stay below the 64 KiB reply cap, which the model of this check does not describe - C06 does)
				payload += "|" + string(r.Bytes(r.Range(4200, 7000)))
				bigBodies++
			}
			topic := keys[kp] + "/" + chanStr(lv)
			if ttl > 0 {
				topic += fmt.Sprintf("?ttl=%d", ttl)
			} else if r.Chance(10) {
				topic += "?ttl=0"
			}
			steps = append(steps, fmt.Sprintf("pub key=%s %s retain=%v ttl=%d %s", kp, chanStr(lv), retain, ttl, payload))
			tb := time.Now().Unix()
			_, err := c.Publish(topic, []byte(payload), retain)
			ta := time.Now().Unix()
			exactT := int64(0)
			if tb == ta {
				exactT = tb
			}
			if err != nil {
				fail("no-reply", err.Error())
				break
			}
			if e := c.TakeErrors(); len(e) > 0 {
				fail("unexpected-error", fmt.Sprintf("%+v", e))
				break
			}
			hasStore := strings.Contains(kp, "s")
			if (retain || ttl > 0) && hasStore {
				e := c07Entry{levels: lv, payload: payload, idx: len(log), t: exactT}
				if ttl > 0 {
					e.ttl = uint32(ttl)
				} else {
					e.ttl = defaultRetention
				}
				log = append(log, e)
				storedN++
				rec.Inc("publishes_stored")
			} else {
				notStoredN++
				rec.Inc("publishes_not_stored")
			}
			checkStore()
		case x < 60: // a client with a last will connects and goes away
			seq++
			lv := chans[r.Intn(len(chans))]
			kp := r.Pick("rw", "rws", "rl", "rwsl")
			retain := r.Chance(60)
			payload := fmt.Sprintf("will%d", seq)
			w := b.Attach("w", nil)
			steps = append(steps, fmt.Sprintf("will key=%s %s retain=%v %s", kp, chanStr(lv), retain, payload))
			if rc, err := w.Connect(fmt.Sprintf("w-%d-%d", ci, seq), "", &mqttref.Will{Topic: keys[kp] + "/" + chanStr(lv), Payload: []byte(payload), Retain: retain}); err != nil || rc != 0 {
				fail("no-reply", fmt.Sprintf("will connect rc=%d err=%v", rc, err))
				break
			}
			wtb := time.Now().Unix()
			if r.Bool() {
				w.Disconnect()
			} else {
				w.C.CloseWrite()
			}
			if !w.WaitClosed(120 * time.Second) {
				rec.Inconclusive("broker did not close the will connection within the watchdog")
				w.Abort()
				return
			}
			w.Abort()
			if retain && strings.Contains(kp, "s") && strings.Contains(kp, "w") {
				wt := int64(0)
				if wta := time.Now().Unix(); wta == wtb {
					wt = wtb
				}
				log = append(log, c07Entry{levels: lv, payload: payload, ttl: defaultRetention, idx: len(log), t: wt})
				rec.Inc("wills_stored")
			} else {
				rec.Inc("wills_not_stored")
			}
			checkStore()
		default: // subscribe and check the replay
			f := filters[r.Intn(len(filters))]
			kp := r.Pick("rwl", "rwsl", "rw", "rws", "rl", "rwl")
			lastOpt := r.Pick("", "0", "1", "2", "5", "1000")
			var opts []string
			if lastOpt != "" {
				opts = append(opts, "last="+lastOpt)
			}
			from, until := int64(0), int64(0)
			switch r.Intn(6) {
			case 0:
				from = now - 1000
			case 1:
				until = now + 1000
			case 2:
				from, until = now-1000, now+1000
			case 3:
				from = now + 1000 // excludes everything
			case 4:
				until = now - 1000 // excludes everything
			}
			// windows whose bounds fall exactly on the second of a stored message (a client resuming from the time of
			// the last message it saw); only when every stored message's second is known exactly
			allExact := len(log) > 0
			for _, e := range log {
				if e.t == 0 {
					allExact = false
				}
			}
			exactWindow := false
			if allExact && r.Chance(35) {
				e := log[r.Intn(len(log))]
				exactWindow = true
				switch r.Intn(4) {
				case 0:
					from, until = e.t, 0
				case 1:
					from, until = e.t, e.t
				case 2:
					from, until = 0, e.t
				case 3:
					from, until = e.t+1, 0
				}
			}
			if from != 0 {
				opts = append(opts, fmt.Sprintf("from=%d", from))
			}
			if until != 0 {
				opts = append(opts, fmt.Sprintf("until=%d", until))
			}
			topic := keys[kp] + "/" + chanStr(f)
			if len(opts) > 0 {
				topic += "?" + strings.Join(opts, "&")
			}
			steps = append(steps, fmt.Sprintf("sub key=%s %s?%s", kp, chanStr(f), strings.Join(opts, "&")))
			pre, _ := c.Take() // live deliveries from earlier subscriptions are not this step's subject
			_ = pre
			rc, between, err := c.Subscribe(topic)
			if err != nil || rc == 0x80 {
				fail("valid-subscribe-refused", fmt.Sprintf("rc=%#x err=%v", rc, err))
				break
			}
			// model
			limit := 1
			switch lastOpt {
			case "":
				limit = 1
			default:
				fmt.Sscanf(lastOpt, "%d", &limit)
			}
			var want []c07Entry
			if strings.Contains(kp, "l") {
				excluded := from > now || (until != 0 && until < now)
				if exactWindow {
					for i := len(log) - 1; i >= 0 && len(want) < limit; i-- {
						if refMatch(false, f, log[i].levels) && log[i].t >= from && (until == 0 || log[i].t <= until) {
							want = append(want, log[i])
						}
					}
					rec.Inc("replays_with_window_on_a_message_second")
				} else if !excluded {
					for i := len(log) - 1; i >= 0 && len(want) < limit; i-- {
						if refMatch(false, f, log[i].levels) {
							want = append(want, log[i])
						}
					}
				}
			} else {
				replaysDenied++
				rec.Inc("replays_without_load_permission")
			}
			gotS := make([]string, 0, len(between))
			for _, p := range between {
				gotS = append(gotS, p.Topic+"|"+p.Payload)
			}
			wantS := make([]string, 0, len(want))
			for _, e := range want {
				wantS = append(wantS, chanStr(e.levels)+"|"+e.payload)
			}
			sort.Strings(gotS)
			sort.Strings(wantS)
			rec.Inc("replay_comparisons")
			if len(want) > 0 {
				replaysNonEmpty++
				rec.Inc("replays_nonempty")
			}
			if strings.Join(gotS, ",") != strings.Join(wantS, ",") {
				kind := "replay-mismatch"
				if !strings.Contains(kp, "l") {
					kind = "replay-without-load-permission"
				}
				fail(kind, fmt.Sprintf("filter %s key=%s opts=%v: before SUBACK got %v, model last-%d = %v", chanStr(f), kp, opts, gotS, limit, wantS))
				break
			}
			// half of the time the subscription stays active, so that a later SUBSCRIBE for the same
			// filter (e.g. to fetch more history) finds the connection already subscribed
			if r.Chance(50) {
				if err := c.Unsubscribe(keys[kp] + "/" + chanStr(f)); err != nil {
					fail("no-reply", err.Error())
				}
			} else {
				rec.Inc("subscriptions_left_active")
			}
			c.Take()
		}
	}
	h := []interface{}{opts.Storage}
	for _, s := range steps {
		h = append(h, s)
	}
	rec.Case(vk.Hash(h...), replaysNonEmpty >= 2 && replaysDenied >= 1 && storedN >= 3 && notStoredN >= 2)
	if rec.WantSample() {
		k := len(steps)
		if k > 12 {
			k = 12
		}
		rec.Sample(map[string]interface{}{"case": ci, "storage": opts.Storage, "first_steps": steps[:k], "steps": len(steps), "stored": len(log)})
	}
}
