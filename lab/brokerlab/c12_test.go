//go:build verif

// C12 — a key cannot be altered into a more powerful one (DESIGN §5 C12).
// grants(mutated) ⊆ grants(original) on the real Service.Authorize / keygen.CreateKey.
package brokerlab

import (
	"encoding/base64"
	"fmt"
	"sort"
	"strings"
	"testing"
	"time"

	"github.com/emitter-io/emitter/internal/security"
	"github.com/emitter-io/emitter/verif/lab/vk"
)

var c12Fields = []struct {
	name     string
	from, to int
}{{"salt", 0, 2}, {"master", 2, 4}, {"contract", 4, 8}, {"signature", 8, 12}, {"path", 12, 15}, {"perms", 15, 16}, {"target", 16, 20}, {"expiry", 20, 24}}

const b64url = "ABCDEFGHIJKLMNOPQRSTUVWXYZabcdefghijklmnopqrstuvwxyz0123456789-_"

type c12Probe struct {
	ch   string
	perm int
}

func c12Probes() []c12Probe {
	var p []c12Probe
	var chans []string
	for _, l := range c03Enum(3) {
		plus := false
		for _, x := range l {
			if x == "+" {
				plus = true
			}
		}
		if !plus {
			chans = append(chans, strings.Join(l, "/")+"/")
		}
	}
	chans = append(chans, "x/", "x/y/", "a/+/", "+/", "a/b/c/a/")
	for _, c := range chans {
		for pi := range c03Perms {
			p = append(p, c12Probe{c, pi})
		}
	}
	return p
}

func (b *Broker) grants(key string, probes []c12Probe) map[string]bool {
	g := map[string]bool{}
	for _, p := range probes {
		ch := security.ParseChannel([]byte(key + "/" + p.ch))
		if ch.ChannelType == security.ChannelInvalid {
			continue
		}
		if _, _, ok := b.Svc.Authorize(ch, c03Perms[p.perm].bit); ok {
			g[p.ch+" "+c03Perms[p.perm].name] = true
		}
	}
	if k, err := b.Svc.VerifKeygen().CreateKey(key, "zz/", security.AllowReadWrite, time.Unix(0, 0)); err == nil && k != "" {
		g["MINT-KEYS"] = true
	}
	return g
}

func TestC12(t *testing.T) {
	rec := vk.New("C12", "mutate")
	defer rec.Finish(t)
	thorough := vk.Tier() == "thorough"
	rec.Rule("case = (licence version, issued key, mutation): every single-bit flip of the 24 decoded bytes, every single-character substitution at every position, XOR of structured masks on each field, every single identity bit (master id, contract, signature) combined with permission-byte rewrites, swaps of 8-byte blocks and 4-character groups, truncation/extension" +
		" (splices of two keys are the subject of the part 'splice'); the mutated string's grants over a probe set (44 channels x 6 operations + 'may mint keys') on the real Service.Authorize are compared with the original's; " +
		"non-trivial = the mutated string differs from the original and is accepted for at least one probe (decrypts and validates); all mutated strings are counted in evaluations; distinct = (licence, key, mutated string)")
	probes := c12Probes()
	type issued struct {
		target string
		perms  string
		expiry time.Time
	}
	keysSpec := []issued{
		{"a/b/", "r", time.Unix(0, 0)},
		{"a/#/", "w", time.Unix(0, 0)},
		{"a/b/", "rwe", time.Unix(0, 0)},
		{"a/+/", "rl", time.Unix(0, 0)},
		{"b/#/", "rwslp", time.Now().Add(24 * time.Hour)},
		{"a/b/c/", "p", time.Now().Add(-24 * time.Hour)}, // expired: grants nothing
	}
	if thorough {
		for _, tg := range []string{"a/", "#/", "+/b/", "c/a/#/", "a/b/c/"} {
			for _, pm := range []string{"r", "w", "s", "l", "rw", "rwslpe", "e", ""} {
				keysSpec = append(keysSpec, issued{tg, pm, time.Unix(0, 0)})
			}
		}
	}
	caseNo := 0
	for lic := 1; lic <= 3; lic++ {
		b, err := NewBroker(Opts{LicenseVersion: lic})
		if err != nil {
			rec.Inconclusive(err.Error())
			continue
		}
		for ki, ks := range keysSpec {
			orig := b.RawKey(func(k security.Key) {
				k.SetSalt(uint16(0x1000 + ki))
				k.SetPermissions(Perms(ks.perms))
				k.SetExpires(ks.expiry)
				k.SetTarget(ks.target)
			})
			base := b.grants(orig, probes)
			plain, _ := b.Cipher.DecryptKey([]byte(orig))
			raw, _ := base64.RawURLEncoding.DecodeString(orig)
			muts := c12Mutations(orig, raw, thorough)
			for _, m := range muts {
				caseNo++
				if m == orig || !vk.Mine(caseNo) {
					continue
				}
				g := b.grants(m, probes)
				rec.Case(vk.Hash(lic, ki, m), len(g) > 0)
				if len(g) > 0 {
					rec.Inc("mutants_accepted_for_some_probe")
				}
				var extra []string
				for k := range g {
					if !base[k] {
						extra = append(extra, k)
					}
				}
				if len(extra) == 0 {
					continue
				}
				sort.Strings(extra)
				// classify by the plaintext fields that differ
				var diff []string
				ident := false
				if mp, err := b.Cipher.DecryptKey([]byte(m)); err == nil && len(mp) == 24 && len(plain) == 24 {
					for _, f := range c12Fields {
						if string(mp[f.from:f.to]) != string(plain[f.from:f.to]) {
							diff = append(diff, f.name)
							if f.name == "master" || f.name == "contract" || f.name == "signature" {
								ident = true
							}
						}
					}
				} else {
					diff = []string{"undecryptable"}
					ident = true
				}
				cls := "identity-fields-intact"
				if ident {
					cls = "identity-fields-changed"
				}
				if len(extra) > 6 {
					extra = append(extra[:6], fmt.Sprintf("…(%d more)", len(extra)-6))
				}
				rec.Violation(caseNo, fmt.Sprintf("v%d/escalation/%s", lic, cls),
					fmt.Sprintf("licence v%d key(target=%s perms=%q): mutated string %s (original %s; plaintext fields changed: %v) additionally grants %v", lic, ks.target, ks.perms, m, orig, diff, extra),
					map[string]interface{}{"licence": lic, "target": ks.target, "perms": ks.perms, "original": orig, "mutated": m, "plaintext_fields_changed": diff, "extra_grants": extra})
			}
			if rec.WantSample() {
				rec.Sample(map[string]interface{}{"licence": lic, "target": ks.target, "perms": ks.perms, "original_grants": len(base), "mutations": len(muts), "example_mutation": muts[len(muts)/2]})
			}
		}
		b.Close()
	}
}

func c12Mutations(orig string, raw []byte, thorough bool) []string {
	var out []string
	enc := func(b []byte) string { return base64.RawURLEncoding.EncodeToString(b) }
	// single-bit flips of the 24 decoded bytes
	for i := 0; i < len(raw)*8; i++ {
		c := append([]byte(nil), raw...)
		c[i/8] ^= 1 << uint(i%8)
		out = append(out, enc(c))
	}
	// single-character substitutions
	for pos := 0; pos < len(orig); pos++ {
		for j := 0; j < len(b64url); j++ {
			if b64url[j] == orig[pos] {
				continue
			}
			if !thorough && (pos*7+j)%4 != 0 {
				continue
			}
			out = append(out, orig[:pos]+string(b64url[j])+orig[pos+1:])
		}
	}
	// structured XOR masks per field
	masks := []byte{0x01, 0x02, 0x04, 0x06, 0x08, 0x10, 0x1e, 0x20, 0x40, 0x7e, 0x80, 0xff, 0xfe, 0x3e}
	for _, f := range c12Fields {
		for _, m := range masks {
			for off := f.from; off < f.to; off++ {
				c := append([]byte(nil), raw...)
				c[off] ^= m
				out = append(out, enc(c))
			}
			c := append([]byte(nil), raw...)
			for off := f.from; off < f.to; off++ {
				c[off] ^= m
			}
			out = append(out, enc(c))
		}
	}
	// pairs of fields (permission byte together with path/target/expiry)
	for _, m := range masks {
		for _, off := range []int{12, 13, 14, 16, 19, 20, 23} {
			c := append([]byte(nil), raw...)
			c[15] ^= m
			c[off] ^= 0xff
			out = append(out, enc(c))
		}
	}
	// one bit of an identity field (master id, contract, signature) together with the permission byte:
	// set to "master only", write added, everything
	perm := raw[15]
	for bit := 16; bit < 96; bit++ {
		for _, pm := range []byte{perm ^ 0x01, 0x04, 0xfe, 0x7e &^ perm} {
			if pm == 0 {
				continue
			}
			c := append([]byte(nil), raw...)
			c[bit/8] ^= 1 << uint(bit%8)
			c[15] ^= pm
			out = append(out, enc(c))
		}
	}
	// whole-byte masks on each identity byte together with "master only"
	for off := 2; off < 12; off++ {
		for _, m := range []byte{0xff, 0x0f, 0xf0, 0x55} {
			c := append([]byte(nil), raw...)
			c[off] ^= m
			c[15] ^= perm ^ 0x01
			out = append(out, enc(c))
			c2 := append([]byte(nil), raw...)
			c2[off] ^= m
			c2[15] ^= 0x04
			out = append(out, enc(c2))
		}
	}
	// swaps of 8-byte blocks and of 4-character groups
	for i := 0; i < 3; i++ {
		for j := i + 1; j < 3; j++ {
			c := append([]byte(nil), raw...)
			for k := 0; k < 8; k++ {
				c[i*8+k], c[j*8+k] = c[j*8+k], c[i*8+k]
			}
			out = append(out, enc(c))
		}
	}
	for i := 0; i < 8; i++ {
		for j := i + 1; j < 8; j++ {
			s := []byte(orig)
			for k := 0; k < 4; k++ {
				s[i*4+k], s[j*4+k] = s[j*4+k], s[i*4+k]
			}
			out = append(out, string(s))
		}
	}
	// truncation / extension
	for n := 0; n < 32; n++ {
		out = append(out, orig[:n])
	}
	for _, suf := range []string{"A", "AA", "AAAA", "=", "==", "/", " "} {
		out = append(out, orig+suf, suf+orig)
	}
	return out
}
