//go:build verif

// C05 part "conc" — the routing table follows the replicated state when gossip payloads arrive CONCURRENTLY.
// mesh calls Gossiper.OnGossip / OnGossipBroadcast from the receive goroutine of each connection, so payloads
// that reach a broker over different links (the broadcast of an operation over one link, a neighbour's periodic
// full state over another) are merged at the same time; Swarm.update touches peers from a third goroutine.
// The single-threaded scheduler of the "sim" part cannot produce those interleavings; this part does (race build).
//
// One real broker; 2-3 simulated remote brokers whose subscribe/unsubscribe operations (logical clock, built
// sequentially beforehand) are encoded as one-operation payloads, batches and cumulative full states and delivered
// by 3-8 goroutines in seeded orders with duplicates through the real Swarm.OnGossip / OnGossipBroadcast, while
// another goroutine touches the peers as Swarm.update does. Logical end: every goroutine joined.
// Oracle: (1) the replicated state equals the point-wise maximum of all operations (delivery order is irrelevant
// for an LWW state, so the expected final state is unique); (2) per remote broker the set of ssids under which it
// sits in the trie = the ssids for which the final state holds an active subscription of that broker;
// (3) then, sequentially, every still-active subscription is removed and the trie must hold no remote broker at
// all, and one subscription per (broker, ssid) is added again and must appear - which turns any drift of the
// per-peer bookkeeping caused by the concurrent phase into a wrong route.
package clusterlab

import (
	"fmt"
	"os"
	"sort"
	"strings"
	"sync"
	"sync/atomic"
	"testing"
	"time"

	"github.com/emitter-io/emitter/internal/event"
	"github.com/emitter-io/emitter/internal/event/crdt"
	"github.com/emitter-io/emitter/internal/message"
	"github.com/emitter-io/emitter/internal/security"
	"github.com/emitter-io/emitter/verif/lab/brokerlab"
	"github.com/emitter-io/emitter/verif/lab/vk"
	"github.com/weaveworks/mesh"
)

var concClock int64

type concOp struct {
	peer mesh.PeerName
	conn int
	ssid int
	add  bool
	t    int64
}

func (o concOp) String() string {
	k := "del"
	if o.add {
		k = "add"
	}
	return fmt.Sprintf("%s peer=%s conn=%d ssid=%d t=%d", k, o.peer, o.conn, o.ssid, o.t)
}

func concEvent(o concOp, ssids []message.Ssid) *event.Subscription {
	return &event.Subscription{Peer: uint64(o.peer), Conn: security.ID(o.conn), Ssid: ssids[o.ssid], User: "u", Channel: []byte(fmt.Sprintf("ch%d/", o.ssid))}
}

type concPayload struct {
	bytes []byte
	desc  string
}

func TestC05Conc(t *testing.T) {
	rec := vk.New("C05", "conc")
	defer rec.Finish(t)
	rec.Rule("case = one real broker receiving the subscribe/unsubscribe operations of 2-3 simulated remote brokers (few connections, few ssids, strictly increasing logical times) as one-operation payloads, batches and cumulative full states, each delivered at least once, by 3-8 goroutines at the same time through Swarm.OnGossip / OnGossipBroadcast while another goroutine touches the peers as Swarm.update does; after all goroutines have joined: " +
		"replicated state = point-wise maximum of the operations, trie routes per remote broker = ssids with an active subscription in that state; then sequentially every active subscription is removed (no remote broker may remain in the trie) and one per (broker, ssid) is added again (must appear); " +
		"non-trivial = >=2 goroutines delivered operations on the same key; distinct = hash of the operation list and the partition of payloads over goroutines")
	n := vk.N(240, 12000)
	for ci := 0; ci < n; ci++ {
		if !vk.Mine(ci) {
			continue
		}
		runC05Conc(rec, ci)
	}
}

func runC05Conc(rec *vk.Rec, ci int) {
	r := vk.NewRand(vk.Seed(), "C05conc", ci)
	old := crdt.Now
	crdt.Now = func() int64 { return atomic.LoadInt64(&concClock) }
	defer func() { crdt.Now = old }()
	atomic.StoreInt64(&concClock, 1000)

	b, err := brokerlab.NewBroker(brokerlab.Opts{Node: 1})
	if err != nil {
		rec.Inconclusive(err.Error())
		return
	}
	defer b.Close()
	sw := b.Svc.VerifSwarm()
	npeers := r.Range(2, 3)
	var peers []mesh.PeerName
	for i := 0; i < npeers; i++ {
		nm, _ := mesh.PeerNameFromString(fmt.Sprintf("00:00:00:00:00:%02x", i+2))
		peers = append(peers, nm)
	}
	nssid := r.Range(1, 3)
	var ssids []message.Ssid
	for i := 0; i < nssid; i++ {
		ssids = append(ssids, message.Ssid{b.Contract, uint32(1000 + i), uint32(7)})
	}
	nconn := r.Range(1, 3)
	nops := r.Range(6, 40)
	var ops []concOp
	var payloads []concPayload
	world := event.NewState("")
	expect := map[string][2]int64{} // key -> (add, del)
	keyInfo := map[string]concOp{}
	var batch *event.State
	batchN := 0
	batchDesc := ""
	for i := 0; i < nops; i++ {
		o := concOp{peer: peers[r.Intn(len(peers))], conn: 1 + r.Intn(nconn), ssid: r.Intn(nssid), add: r.Chance(60), t: int64(2000 + 10*i)}
		ops = append(ops, o)
		atomic.StoreInt64(&concClock, o.t)
		ev := concEvent(o, ssids)
		one := event.NewState("")
		if o.add {
			one.Add(ev)
			world.Add(ev)
		} else {
			one.Del(ev)
			world.Del(ev)
		}
		e := expect[ev.Key()]
		if o.add {
			e[0] = o.t
		} else {
			e[1] = o.t
		}
		expect[ev.Key()] = e
		keyInfo[ev.Key()] = o
		switch r.Intn(4) {
		case 0, 1:
			payloads = append(payloads, concPayload{one.Encode()[0], "op " + o.String()})
		case 2: // goes into a batch
			if batch == nil {
				batch = event.NewState("")
				batchDesc = "batch"
			}
			if o.add {
				batch.Add(ev)
			} else {
				batch.Del(ev)
			}
			batchN++
			batchDesc += " [" + o.String() + "]"
			if batchN >= 3 || r.Chance(40) {
				payloads = append(payloads, concPayload{batch.Encode()[0], batchDesc})
				batch, batchN = nil, 0
			}
		default: // only travels inside a later full state
		}
		if r.Chance(25) {
			payloads = append(payloads, concPayload{world.Encode()[0], fmt.Sprintf("full state after op %d", i)})
		}
	}
	if batch != nil {
		payloads = append(payloads, concPayload{batch.Encode()[0], batchDesc})
	}
	payloads = append(payloads, concPayload{world.Encode()[0], "final full state"})
	atomic.StoreInt64(&concClock, int64(2000+10*nops+5))

	// partition over goroutines (each payload at least once, some twice)
	ng := r.Range(3, 8)
	parts := make([][]concPayload, ng)
	for _, p := range payloads {
		g := r.Intn(ng)
		parts[g] = append(parts[g], p)
		if r.Chance(30) {
			g2 := r.Intn(ng)
			parts[g2] = append(parts[g2], p)
		}
	}
	for g := range parts {
		perm := r.Perm(len(parts[g]))
		sh := make([]concPayload, len(parts[g]))
		for i, j := range perm {
			sh[i] = parts[g][j]
		}
		parts[g] = sh
	}
	mode := os.Getenv("VERIF_C05CONC_MODE") // diagnosis only: "precreate" = peers known before the concurrent phase, "notouch" = no toucher
	if strings.Contains(mode, "precreate") {
		for _, p := range peers {
			sw.VerifTouch(p)
		}
	}
	var wg sync.WaitGroup
	var panics atomic.Value
	start := make(chan struct{})
	for g := 0; g < ng; g++ {
		gr := vk.NewRand(vk.Seed(), fmt.Sprintf("C05conc-g%d", g), ci)
		wg.Add(1)
		go func(g int, gr *vk.Rand) {
			defer wg.Done()
			defer func() {
				if x := recover(); x != nil {
					panics.Store(fmt.Sprintf("goroutine %d: %v", g, x))
				}
			}()
			<-start
			for _, p := range parts[g] {
				buf := append([]byte(nil), p.bytes...)
				if gr.Bool() {
					sw.OnGossip(buf)
				} else {
					sw.OnGossipBroadcast(peers[gr.Intn(len(peers))], buf)
				}
			}
		}(g, gr)
	}
	stop := make(chan struct{})
	var twg sync.WaitGroup
	twg.Add(1)
	go func() {
		defer twg.Done()
		<-start
		for i := 0; ; i++ {
			select {
			case <-stop:
				return
			default:
			}
			if strings.Contains(mode, "notouch") {
				time.Sleep(time.Millisecond)
				continue
			}
			sw.VerifTouch(peers[i%len(peers)])
			time.Sleep(50 * time.Microsecond)
		}
	}()
	close(start)
	wg.Wait()
	close(stop)
	twg.Wait()

	wit := func() map[string]interface{} {
		var os, ps []string
		for _, o := range ops {
			os = append(os, o.String())
		}
		for g := range parts {
			for _, p := range parts[g] {
				ps = append(ps, fmt.Sprintf("g%d: %s", g, p.desc))
			}
		}
		return map[string]interface{}{"ops": os, "deliveries": ps, "goroutines": ng}
	}
	if x := panics.Load(); x != nil {
		rec.Violation(ci, "conc/receiver-panics", fmt.Sprintf("a gossip entry point panicked under concurrent delivery: %v", x), wit())
		return
	}
	// 1. replicated state
	got := sw.VerifState().VerifEntries(event.VerifSubs)
	stateOK := true
	for k, e := range expect {
		g := got[k]
		if g != e {
			o := keyInfo[k]
			rec.Violation(ci, "conc/replicated-state-wrong", fmt.Sprintf("key (peer=%s conn=%d ssid=%d): state holds (add=%d, del=%d), the maximum of the delivered operations is (add=%d, del=%d)", o.peer, o.conn, o.ssid, g[0], g[1], e[0], e[1]), wit())
			stateOK = false
			break
		}
	}
	rec.Add("state_entries_compared", int64(len(expect)))
	// 2. routes
	routes := func() map[string]bool {
		_, pairs := b.Svc.VerifTrie().VerifDump()
		out := map[string]bool{}
		for _, p := range pairs {
			if p.Type == message.SubscriberRemote || p.Type == message.SubscriberOffline {
				out[fmt.Sprintf("%s@%v", p.ID, []uint32(p.Ssid))] = true
			}
		}
		return out
	}
	want := map[string]bool{}
	active := map[string]concOp{}
	for k, e := range expect {
		if e[0] != 0 && e[0] >= e[1] {
			o := keyInfo[k]
			want[fmt.Sprintf("%s@%v", o.peer.String(), []uint32(ssids[o.ssid]))] = true
			active[k] = o
		}
	}
	diff := func(got, want map[string]bool) string {
		var stale, missing []string
		for k := range got {
			if !want[k] {
				stale = append(stale, k)
			}
		}
		for k := range want {
			if !got[k] {
				missing = append(missing, k)
			}
		}
		sort.Strings(stale)
		sort.Strings(missing)
		if len(stale)+len(missing) == 0 {
			return ""
		}
		return fmt.Sprintf("stale routes %v, missing routes %v", stale, missing)
	}
	routesOK := true
	if stateOK {
		if d := diff(routes(), want); d != "" {
			kind := "stale-route"
			if len(d) > 0 && !hasStale(routes(), want) {
				kind = "missing-route"
			}
			rec.Violation(ci, "conc/"+kind+"/after-concurrent-delivery", "the replicated state is the expected one but the trie does not follow it: "+d, wit())
			routesOK = false
		}
		rec.Inc("route_tables_compared")
	}
	// 3. sequential aftermath: remove everything, then add one per (peer, ssid)
	if stateOK && routesOK {
		tt := int64(2000 + 10*nops + 100)
		keys := make([]string, 0, len(active))
		for k := range active {
			keys = append(keys, k)
		}
		sort.Strings(keys)
		for _, k := range keys {
			o := active[k]
			tt += 10
			atomic.StoreInt64(&concClock, tt)
			one := event.NewState("")
			one.Del(concEvent(o, ssids))
			sw.OnGossip(one.Encode()[0])
		}
		if left := routes(); len(left) != 0 {
			var l []string
			for k := range left {
				l = append(l, k)
			}
			sort.Strings(l)
			rec.Violation(ci, "conc/stale-route/after-removing-everything", fmt.Sprintf("every subscription of every remote broker was removed (sequentially, after the concurrent phase) but the trie still routes to %v", l), wit())
		} else {
			want2 := map[string]bool{}
			for _, p := range peers {
				for si := range ssids {
					tt += 10
					atomic.StoreInt64(&concClock, tt)
					o := concOp{peer: p, conn: 9, ssid: si, add: true, t: tt}
					one := event.NewState("")
					one.Add(concEvent(o, ssids))
					sw.OnGossip(one.Encode()[0])
					want2[fmt.Sprintf("%s@%v", p.String(), []uint32(ssids[si]))] = true
				}
			}
			if d := diff(routes(), want2); d != "" {
				rec.Violation(ci, "conc/missing-route/after-adding-again", "one subscription per (broker, ssid) was added sequentially after the concurrent phase: "+d, wit())
			}
		}
		rec.Inc("aftermath_checked")
	}
	// fingerprint / non-triviality
	byKey := map[string]map[int]bool{}
	for g := range parts {
		for _, p := range parts[g] {
			if st, err := event.DecodeState(p.bytes); err == nil {
				for k := range st.VerifEntries(event.VerifSubs) {
					if byKey[k] == nil {
						byKey[k] = map[int]bool{}
					}
					byKey[k][g] = true
				}
			}
		}
	}
	shared := false
	for _, gs := range byKey {
		if len(gs) >= 2 {
			shared = true
		}
	}
	fp := []interface{}{ng, npeers, nssid}
	for _, o := range ops {
		fp = append(fp, o.String())
	}
	for g := range parts {
		fp = append(fp, g, len(parts[g]))
	}
	rec.Add("payloads_delivered", int64(totalLen(parts)))
	rec.Case(vk.Hash(fp...), shared)
	if rec.WantSample() {
		rec.Sample(map[string]interface{}{"case": ci, "ops": len(ops), "payloads": len(payloads), "goroutines": ng, "remote_brokers": npeers, "ssids": nssid, "active_at_end": len(active)})
	}
}

func hasStale(got, want map[string]bool) bool {
	for k := range got {
		if !want[k] {
			return true
		}
	}
	return false
}

func totalLen(p [][]concPayload) (n int) {
	for _, x := range p {
		n += len(x)
	}
	return
}

// TestC13Big — C13 part 2 on a state that is larger than what one complete-state payload holds. The durable sets encode a
// random sample of at most 50 000 entries, so "the complete state" queued on a link is NOT a superset of a relayed delta
// queued next to it: whatever the sender's Merge does, the bytes finally sent must still carry every update of the delta.
// One real broker is loaded with 80 000 ban entries (one merged payload), then a payload with 100 new bans arrives through
// OnGossip; the returned delta and the periodic Gossip() payload are combined exactly as mesh's gossipSender does
// (pending = pending.Merge(new)), in both orders, encoded, decoded, and searched for the 100 updates.
func TestC13Big(t *testing.T) {
	rec := vk.New("C13", "bigstate")
	defer rec.Finish(t)
	rec.Rule("case = one real broker whose replicated state holds 80 000 bans (more than the 50 000 entries one complete-state payload samples); a payload with 100 new bans is merged through OnGossip and the returned delta is combined with the periodic Gossip() payload by pending.Merge(new) in one of the two orders; the encoded result is decoded and must carry all 100 new updates with their times; " +
		"non-trivial = every case; distinct = (order, seed)")
	shard, _ := vk.Shard()
	n := vk.N(2, 12)
	for ci := 0; ci < n; ci++ {
		if !vk.Mine(ci) {
			continue
		}
		old := crdt.Now
		crdt.Now = func() int64 { return atomic.LoadInt64(&concClock) }
		func() {
			defer func() { crdt.Now = old }()
			atomic.StoreInt64(&concClock, 5000)
			b, err := brokerlab.NewBroker(brokerlab.Opts{Node: 1})
			if err != nil {
				rec.Inconclusive(err.Error())
				return
			}
			defer b.Close()
			sw := b.Svc.VerifSwarm()
			big := event.NewState("")
			for i := 0; i < 80000; i++ {
				bn := event.Ban(fmt.Sprintf("old-%d-%06d-%s", ci, i, strings.Repeat("k", 150))) // ~14 MB of state uncompressed, a few hundred KB on the wire
				big.Add(&bn)
			}
			if _, err := sw.OnGossip(big.Encode()[0]); err != nil {
				rec.Case(vk.Hash("bigstate", shard, ci, "preload"), true)
				rec.Violation(ci, "bigstate/legal-payload-rejected", "a well-formed gossip payload with 80 000 ban entries (encoded by the real State.Encode) was rejected by OnGossip: "+err.Error(), nil)
				return
			}
			if n := len(sw.VerifState().VerifEntries(event.VerifBans)); n != 80000 {
				rec.Case(vk.Hash("bigstate", shard, ci, "preload"), true)
				rec.Violation(ci, "bigstate/merged-payload-truncated", fmt.Sprintf("a gossip payload with 80 000 ban entries was merged but the state holds %d of them", n), nil)
				return
			}
			atomic.StoreInt64(&concClock, 6000+int64(ci))
			fresh := event.NewState("")
			var keys []string
			for i := 0; i < 100; i++ {
				k := fmt.Sprintf("new-%d-%d-%03d", shard, ci, i)
				keys = append(keys, k)
				bn := event.Ban(k)
				fresh.Add(&bn)
			}
			delta, err := sw.OnGossip(fresh.Encode()[0])
			if err != nil || delta == nil {
				rec.Violation(ci, "bigstate/delta-missing", fmt.Sprintf("OnGossip of 100 new bans returned delta=%v err=%v", delta, err), nil)
				return
			}
			full := sw.Gossip()
			order := "delta-then-complete-state"
			var pending mesh.GossipData
			if ci%2 == 0 {
				pending = delta.Merge(full)
			} else {
				order = "complete-state-then-delta"
				pending = full.Merge(delta)
			}
			got := map[string][2]int64{}
			total := 0
			if pending != nil {
				for _, buf := range pending.Encode() {
					if st, err := event.DecodeState(buf); err == nil {
						for k, v := range st.VerifEntries(event.VerifBans) {
							got[k] = v
							total++
						}
					}
				}
			}
			missing := 0
			for _, k := range keys {
				if v, ok := got[k]; !ok || v[0] != 6000+int64(ci) {
					missing++
				}
			}
			rec.Add("sent_entries_decoded", int64(total))
			rec.Add("delta_updates_searched", 100)
			rec.Case(vk.Hash("bigstate", shard, ci, order), true)
			if missing > 0 {
				rec.Violation(ci, "coalescing-lost-update/complete-state-larger-than-its-sample", fmt.Sprintf("a delta with 100 new bans and the complete state (80 100 entries, of which a payload samples 50 000) were queued on one link (%s): the bytes finally sent (%d entries) lack %d of the 100 new updates", order, total, missing),
					map[string]interface{}{"order": order, "state_entries": 80100, "sent_entries": total, "missing": missing})
			}
			if rec.WantSample() {
				rec.Sample(map[string]interface{}{"order": order, "sent_entries": total, "missing_of_100": missing})
			}
		}()
	}
}
