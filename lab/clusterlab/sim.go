//go:build verif

// Package clusterlab runs 2-4 real brokers on a simulated mesh transport (DESIGN §3): per directed
// link one sender that is a transcription of mesh.gossipSender (Send: pending = pending.Merge(new);
// Broadcast: per-source slot, same rule; pick: gossip slot first, then one broadcast slot) operating
// on the real *event.State objects the swarm hands over, a FIFO wire per link, and delivery that
// calls the receiver's real OnGossip / OnGossipBroadcast / OnGossipUnicast and relays the returned
// delta the way gossipChannel.deliver* does. A single-threaded seeded scheduler chooses what moves.
package clusterlab

import (
	"fmt"
	"sort"

	"github.com/emitter-io/emitter/internal/event"
	"github.com/emitter-io/emitter/verif/lab/brokerlab"
	"github.com/emitter-io/emitter/verif/lab/vk"
	"github.com/weaveworks/mesh"
)

type times struct{ add, del int64 }
type content map[string]times

func readContent(st *event.State) content {
	out := content{}
	for _, typ := range []uint8{event.VerifSubs, event.VerifBans, event.VerifConns} {
		for k, v := range st.VerifEntries(typ) {
			out[fmt.Sprintf("%d|%s", typ, k)] = times{v[0], v[1]}
		}
	}
	return out
}

// snapshot reads what a payload would carry if it were sent now (through its own Encode).
func snapshot(d mesh.GossipData) (content, error) {
	if d == nil {
		return nil, fmt.Errorf("nil payload")
	}
	out := content{}
	for _, b := range d.Encode() {
		dec, err := event.DecodeState(b)
		if err != nil {
			return nil, err
		}
		out.maxWith(readContent(dec))
	}
	return out, nil
}

func (c content) maxWith(o content) {
	for k, v := range o {
		cur := c[k]
		if v.add > cur.add {
			cur.add = v.add
		}
		if v.del > cur.del {
			cur.del = v.del
		}
		c[k] = cur
	}
}

// lacks lists the updates of want that sent does not dominate.
func (c content) lacks(sent content) []string {
	var out []string
	for k, w := range c {
		s := sent[k]
		if s.add < w.add {
			out = append(out, fmt.Sprintf("add-time of %x", k))
		}
		if s.del < w.del {
			out = append(out, fmt.Sprintf("del-time of %x", k))
		}
	}
	sort.Strings(out)
	return out
}

type slot struct {
	data   mesh.GossipData
	want   content // point-wise max of everything queued in this slot since the last send
	queued int
	site   string
}

type wireMsg struct {
	kind    byte // 'G' gossip, 'B' broadcast, 'U' unicast
	src     mesh.PeerName
	dst     mesh.PeerName
	payload []byte
}

type dlink struct {
	from, to   int
	up         bool
	gossip     *slot
	broadcasts map[mesh.PeerName]*slot
	staged     []stagedMsg // encoded by the sender goroutine but not yet written to the connection
	wire       []wireMsg
}

// stagedMsg is one encoded payload between GossipData.Encode() and the write to the connection: mesh's
// sender goroutine encodes outside any lock, so other goroutines (other links, Send/Broadcast callers)
// run in between. The slice is NOT copied here - it is whatever Encode returned.
type stagedMsg struct {
	kind byte
	src  mesh.PeerName
	bufs [][]byte
	s    *slot
}

// Finding is something the transport layer itself observed (C13 part 2).
type Finding struct {
	Kind string
	Desc string
}

type Node struct {
	B       *brokerlab.Broker
	Name    mesh.PeerName
	idx     int
	net     *Net
	Offline bool
}

type Net struct {
	Nodes    []*Node
	links    map[[2]int]*dlink
	R        *vk.Rand
	Findings []Finding
	Stats    map[string]int64
	// Immediate: deliver everything as soon as it is queued (regime S0)
	Immediate bool
	Closed    bool // set after teardown: late callbacks are ignored
	draining  bool
}

// simGossip is what a swarm sees as its mesh.Gossip.
type simGossip struct {
	net *Net
	idx int
}

func (g *simGossip) GossipUnicast(dst mesh.PeerName, msg []byte) error {
	n := g.net
	if n.Closed {
		return nil
	}
	j := n.indexOf(dst)
	if j < 0 {
		return fmt.Errorf("unknown relay destination: %s", dst)
	}
	hop := n.nextHop(g.idx, j)
	if hop < 0 {
		return fmt.Errorf("unable to find connection to relay peer %s", dst)
	}
	l := n.link(g.idx, hop)
	l.wire = append(l.wire, wireMsg{kind: 'U', src: n.Nodes[g.idx].Name, dst: dst, payload: append([]byte(nil), msg...)})
	n.Stats["unicast_frames"]++
	n.maybeDrain()
	return nil
}

func (g *simGossip) GossipBroadcast(update mesh.GossipData) {
	if g.net.Closed {
		return
	}
	g.net.relayBroadcast(g.idx, g.net.Nodes[g.idx].Name, update)
	g.net.maybeDrain()
}

func (g *simGossip) GossipNeighbourSubset(update mesh.GossipData) {
	g.net.relay(g.idx, g.net.Nodes[g.idx].Name, update)
	g.net.maybeDrain()
}

// NewNet creates n real brokers sharing one licence, wired to the simulated transport. topology is a
// list of undirected edges.
func NewNet(n int, edges [][2]int, r *vk.Rand, matcher string) (*Net, error) {
	net := &Net{links: map[[2]int]*dlink{}, R: r, Stats: map[string]int64{}}
	lic := ""
	for i := 0; i < n; i++ {
		g := &simGossip{net: net, idx: i}
		b, err := brokerlab.NewBroker(brokerlab.Opts{License: lic, Node: i + 1, Gossip: g, Matcher: matcher})
		if err != nil {
			net.Close()
			return nil, err
		}
		lic = b.LicString
		sw := b.Svc.VerifSwarm()
		sw.VerifManualPeers() // the scheduler is the only flusher of peer queues
		net.Nodes = append(net.Nodes, &Node{B: b, Name: sw.VerifName(), idx: i, net: net})
	}
	for _, e := range edges {
		for _, d := range [][2]int{{e[0], e[1]}, {e[1], e[0]}} {
			net.links[d] = &dlink{from: d[0], to: d[1], up: true, broadcasts: map[mesh.PeerName]*slot{}}
		}
	}
	return net, nil
}

func (n *Net) Close() {
	for _, nd := range n.Nodes {
		nd.B.Close()
	}
}

func (n *Net) indexOf(name mesh.PeerName) int {
	for i, nd := range n.Nodes {
		if nd.Name == name {
			return i
		}
	}
	return -1
}

func (n *Net) link(i, j int) *dlink { return n.links[[2]int{i, j}] }

func (n *Net) neighbours(i int) []int {
	var out []int
	for j := range n.Nodes {
		if l := n.link(i, j); l != nil && l.up {
			out = append(out, j)
		}
	}
	return out
}

// bfs returns parent pointers of the shortest-path tree rooted at root over up links (ties by index).
func (n *Net) bfs(root int) []int {
	par := make([]int, len(n.Nodes))
	for i := range par {
		par[i] = -2
	}
	par[root] = -1
	q := []int{root}
	for len(q) > 0 {
		x := q[0]
		q = q[1:]
		for _, y := range n.neighbours(x) {
			if par[y] == -2 {
				par[y] = x
				q = append(q, y)
			}
		}
	}
	return par
}

// nextHop on the unicast route from i to j, or -1.
func (n *Net) nextHop(i, j int) int {
	par := n.bfs(j) // tree rooted at the destination: the parent of i is the next hop
	if par[i] < 0 {
		return -1
	}
	return par[i]
}

// broadcast children of node i in the tree rooted at src
func (n *Net) bcastChildren(i int, src mesh.PeerName) []int {
	s := n.indexOf(src)
	if s < 0 {
		return nil
	}
	par := n.bfs(s)
	var out []int
	for y, p := range par {
		if p == i {
			out = append(out, y)
		}
	}
	return out
}

func (n *Net) finding(kind, desc string) {
	n.Findings = append(n.Findings, Finding{kind, desc})
}

// ---- transcription of gossipSender ----------------------------------------------------------

func (n *Net) queue(s **slot, data mesh.GossipData, site string) {
	snap, err := snapshot(data)
	if err != nil {
		n.finding("payload-not-encodable/"+site, err.Error())
		return
	}
	n.Stats["payloads_queued"]++
	if *s == nil {
		*s = &slot{data: data, want: content{}, site: site}
	} else if (*s).data == nil {
		// an earlier pending.Merge(new) returned nil. gossipSender.Send then starts afresh (s.gossip == nil);
		// gossipSender.Broadcast finds the nil entry in its map and calls Merge on a nil GossipData.
		if site == "Broadcast" {
			n.finding("sender-merge-panics/Broadcast", "the per-source broadcast slot holds a nil payload (an earlier Merge returned nil); gossipSender.Broadcast calls Merge on it")
		}
		(*s).data = data
	} else {
		n.Stats["payloads_coalesced"]++
		func() {
			defer func() {
				if r := recover(); r != nil {
					n.finding("sender-merge-panics/"+site, fmt.Sprintf("pending.Merge(new) panicked in the gossip sender: %v", r))
				}
			}()
			(*s).data = (*s).data.Merge(data) // gossip.go: s.gossip = s.gossip.Merge(data)
		}()
	}
	(*s).want.maxWith(snap)
	(*s).queued++
}

// Send: gossipSender.Send
func (n *Net) send(l *dlink, data mesh.GossipData) { n.queue(&l.gossip, data, "Send") }

// Broadcast: gossipSender.Broadcast
func (n *Net) broadcast(l *dlink, src mesh.PeerName, data mesh.GossipData) {
	s := l.broadcasts[src]
	n.queue(&s, data, "Broadcast")
	l.broadcasts[src] = s
}

// relayBroadcast: gossipChannel.relayBroadcast
func (n *Net) relayBroadcast(at int, src mesh.PeerName, update mesh.GossipData) {
	for _, j := range n.bcastChildren(at, src) {
		n.broadcast(n.link(at, j), src, update)
	}
}

// relay: gossipChannel.relay (for clusters of <=4 peers randomNeighbours is every neighbour but the source)
func (n *Net) relay(at int, except mesh.PeerName, data mesh.GossipData) {
	for _, j := range n.neighbours(at) {
		if n.Nodes[j].Name != except {
			n.send(n.link(at, j), data)
		}
	}
}

// flushSender: gossipSender.deliver — pick (gossip slot first, then broadcast slots), Encode, put on the wire.
func (n *Net) flushSender(l *dlink) bool {
	sent := false
	for {
		var s *slot
		var kind byte
		var src mesh.PeerName
		switch {
		case l.gossip != nil:
			s, kind, src = l.gossip, 'G', n.Nodes[l.from].Name
			l.gossip = nil
		case len(l.broadcasts) > 0:
			keys := make([]mesh.PeerName, 0, len(l.broadcasts))
			for k := range l.broadcasts {
				keys = append(keys, k)
			}
			sort.Slice(keys, func(a, b int) bool { return keys[a] < keys[b] })
			k := keys[n.R.Intn(len(keys))] // map iteration order in mesh: any slot
			s, kind, src = l.broadcasts[k], 'B', k
			delete(l.broadcasts, k)
		default:
			return sent
		}
		if s.data == nil {
			// pending.Merge(new) returned nil: the sender would dereference a nil GossipData in deliver()
			if s.queued > 0 && len(s.want) > 0 {
				n.finding("coalescing-lost-update/"+s.site, fmt.Sprintf("link %d->%d: %d payloads were queued; after pending.Merge(new) the pending payload is nil although they carried %d updates", l.from, l.to, s.queued, len(s.want)))
			}
			continue
		}
		var bufs [][]byte
		func() {
			defer func() {
				if r := recover(); r != nil {
					n.finding("sender-encode-panics/"+s.site, fmt.Sprint(r))
				}
			}()
			bufs = s.data.Encode()
		}()
		l.staged = append(l.staged, stagedMsg{kind: kind, src: src, bufs: bufs, s: s})
		sent = true
	}
}

// transmit writes the staged payloads of the link to its wire (the copy into the connection) and checks
// that the bytes actually written dominate everything that was queued for them.
func (n *Net) transmit(l *dlink) {
	for _, st := range l.staged {
		got := content{}
		undecodable := 0
		for _, b := range st.bufs {
			if dec, err := event.DecodeState(b); err == nil {
				got.maxWith(readContent(dec))
			} else {
				undecodable++
			}
			l.wire = append(l.wire, wireMsg{kind: st.kind, src: st.src, payload: append([]byte(nil), b...)})
		}
		n.Stats["payloads_sent"]++
		if st.s.queued > 1 {
			n.Stats["coalesced_sends_checked"]++
		}
		if undecodable > 0 {
			n.finding("sent-bytes-corrupted/"+st.s.site, fmt.Sprintf("link %d->%d: the bytes written to the connection no longer decode (the buffer returned by Encode changed between Encode and the write)", l.from, l.to))
		} else if miss := st.s.want.lacks(got); len(miss) > 0 {
			n.finding("coalescing-lost-update/"+st.s.site, fmt.Sprintf("link %d->%d: %d payloads were queued since the last send; the bytes finally sent lack %d of their updates (e.g. %s)", l.from, l.to, st.s.queued, len(miss), miss[0]))
		}
	}
	l.staged = nil
}

// deliverOne pops the head of the wire and hands it to the receiver as gossipChannel.deliver* does.
func (n *Net) deliverOne(l *dlink) {
	if len(l.wire) == 0 {
		return
	}
	m := l.wire[0]
	l.wire = l.wire[1:]
	if !l.up {
		return
	}
	rcv := n.Nodes[l.to]
	sw := rcv.B.Svc.VerifSwarm()
	n.Stats["wire_messages_delivered"]++
	defer func() {
		if r := recover(); r != nil {
			n.finding("receiver-panics", fmt.Sprintf("node %d handling a %c message: %v", l.to, m.kind, r))
		}
	}()
	switch m.kind {
	case 'G':
		update, err := sw.OnGossip(m.payload)
		if err == nil && update != nil {
			n.relay(l.to, n.Nodes[l.from].Name, update)
		}
	case 'B':
		data, err := sw.OnGossipBroadcast(m.src, m.payload)
		if err == nil && data != nil {
			n.relayBroadcast(l.to, m.src, data)
		}
	case 'U':
		if m.dst == rcv.Name {
			sw.OnGossipUnicast(m.src, m.payload)
		} else if j := n.indexOf(m.dst); j >= 0 {
			if hop := n.nextHop(l.to, j); hop >= 0 {
				nl := n.link(l.to, hop)
				nl.wire = append(nl.wire, m)
			}
		}
	}
}

func (n *Net) sortedLinks() []*dlink {
	keys := make([][2]int, 0, len(n.links))
	for k := range n.links {
		keys = append(keys, k)
	}
	sort.Slice(keys, func(a, b int) bool {
		if keys[a][0] != keys[b][0] {
			return keys[a][0] < keys[b][0]
		}
		return keys[a][1] < keys[b][1]
	})
	out := make([]*dlink, len(keys))
	for i, k := range keys {
		out[i] = n.links[k]
	}
	return out
}

// Pending tells whether anything is queued or in flight.
func (n *Net) Pending() bool {
	for _, l := range n.links {
		if l.gossip != nil || len(l.broadcasts) > 0 || len(l.staged) > 0 || len(l.wire) > 0 {
			return true
		}
	}
	return false
}

// Drain flushes every sender and delivers every wire message until nothing is pending.
func (n *Net) Drain() {
	if n.draining {
		return
	}
	n.draining = true
	defer func() { n.draining = false }()
	for guard := 0; guard < 100000 && n.Pending(); guard++ {
		links := n.sortedLinks()
		for _, l := range links {
			if !l.up {
				l.gossip, l.broadcasts, l.staged, l.wire = nil, map[mesh.PeerName]*slot{}, nil, nil
				continue
			}
			n.flushSender(l) // every sender encodes ...
		}
		for _, l := range links {
			if l.up {
				n.transmit(l) // ... before any of them writes
			}
		}
		for _, l := range links {
			for l.up && len(l.wire) > 0 {
				n.deliverOne(l)
			}
		}
	}
}

func (n *Net) maybeDrain() {
	if n.Immediate {
		n.Drain()
	}
}

// Step performs one random transport action; returns false if nothing could move.
func (n *Net) Step() bool {
	var acts []func()
	for _, l := range n.sortedLinks() {
		l := l
		if !l.up {
			continue
		}
		if l.gossip != nil || len(l.broadcasts) > 0 {
			acts = append(acts, func() { n.flushSender(l) })
		}
		if len(l.staged) > 0 {
			acts = append(acts, func() { n.transmit(l) })
		}
		if len(l.wire) > 0 {
			acts = append(acts, func() { n.deliverOne(l) })
		}
	}
	if len(acts) == 0 {
		return false
	}
	acts[n.R.Intn(len(acts))]()
	return true
}

// Tick is Router.sendAllGossip at node i.
func (n *Net) Tick(i int) {
	if g := n.Nodes[i].B.Svc.VerifSwarm().Gossip(); g != nil {
		n.relay(i, n.Nodes[i].Name, g)
		n.Stats["ticks"]++
	}
	n.maybeDrain()
}

// FlushPeers runs the send queue processor of every peer object of every node (the one flusher).
func (n *Net) FlushPeers() {
	for _, nd := range n.Nodes {
		nd.B.Svc.VerifSwarm().VerifFlushPeers()
	}
	n.maybeDrain()
}

// LinkDown drops the link in both directions together with everything pending on it.
func (n *Net) LinkDown(i, j int) {
	for _, d := range [][2]int{{i, j}, {j, i}} {
		if l := n.links[d]; l != nil {
			l.up = false
			l.gossip, l.broadcasts, l.staged, l.wire = nil, map[mesh.PeerName]*slot{}, nil, nil
		}
	}
	n.Stats["link_down"]++
}

// LinkUp re-establishes the link: both ends do Router.sendAllGossipDown.
func (n *Net) LinkUp(i, j int) {
	for _, d := range [][2]int{{i, j}, {j, i}} {
		if l := n.links[d]; l != nil && !l.up {
			l.up = true
			if g := n.Nodes[d[0]].B.Svc.VerifSwarm().Gossip(); g != nil {
				n.send(l, g) // gossipChannel.SendDown
			}
		}
	}
	n.Stats["link_up"]++
	n.maybeDrain()
}

// Reachable tells whether j can be reached from i over up links.
func (n *Net) Reachable(i, j int) bool { return i == j || n.bfs(i)[j] != -2 }

// GC makes node i forget peer j as mesh's Peers.OnGC callback does once j is unreachable.
func (n *Net) GC(i, j int) {
	n.Nodes[i].B.Svc.VerifSwarm().VerifPeerOffline(n.Nodes[j].Name)
	n.Stats["peer_gc"]++
}
