//go:build verif

// C05 — cluster routing follows the replicated subscription state; C13 part 2 — coalescing in the
// gossip sender loses nothing (DESIGN §5 C05, C13).
package clusterlab

import (
	"encoding/binary"
	"fmt"
	"sort"
	"strings"
	"testing"
	"time"

	"github.com/emitter-io/emitter/internal/event"
	"github.com/emitter-io/emitter/internal/message"
	"github.com/emitter-io/emitter/internal/security"
	"github.com/emitter-io/emitter/verif/lab/brokerlab"
	"github.com/emitter-io/emitter/verif/lab/vk"
)

type cclient struct {
	cl    *brokerlab.Client
	node  int
	name  string
	alive bool
	subs  map[string][]string
}

func matchLv(f, ch []string) bool {
	if len(f) > len(ch) {
		return false
	}
	for i := range f {
		if f[i] != "+" && f[i] != ch[i] {
			return false
		}
	}
	return true
}

func cstr(l []string) string { return strings.Join(l, "/") + "/" }

// longLevel makes the replicated entry of a subscription (key + channel) larger than one kilobyte
var longLevel = strings.Repeat("L", 1200)

var c05Filters = [][]string{{"a"}, {"a", "b"}, {"b", "a"}, {"a", "+"}, {"b"}, {"a", "b", "c"}, {"a", "a"}, {"b", "b"}, {"b", longLevel}, {"b", longLevel}}
var c05Channels = [][]string{{"a"}, {"a", "b"}, {"b", "a"}, {"b"}, {"a", "b", "c"}, {"a", "a"}, {"b", "b"}, {"a", "c"}, {"b", longLevel}}

var regimes = []string{"S0", "S1", "S2", "S3", "S4", "S4r"}

func TestC05(t *testing.T) {
	rec := vk.New("C05", "sim")
	defer rec.Finish(t)
	rec.Rule("case = (regime, seed): 2-4 real brokers on the simulated mesh transport (transcribed gossip sender, FIFO wires, real OnGossip*/Notify/Gossip), scripted clients subscribing/unsubscribing/disconnecting in bursts, " +
		"interleaved with transport steps under regime S0 (immediate in-order delivery), S1 (payloads wait in sender slots and are coalesced), S2 (+ arbitrary choice of link/slot, sparse topologies with relaying, periodic full-state ticks), S3 (+ links going down and coming back, dropping what was pending), S4 (+ a broker unreachable long enough to be garbage-collected by its peers, then returning), S4r (S2 activity, then quiescence, then one broker is collected and returns while no client does anything); " +
		"then quiescence (all links up, 3 rounds of tick+drain, peer queues flushed) and the oracle: per broker and channel the remote peers in its trie = the brokers with a live matching local subscriber, and one uniquely tagged publish per (broker, channel) reaches every live matching subscriber once and nobody else; " +
		"non-trivial = cases with subscribers on >=2 brokers, >=1 unsubscribe or disconnect, and >=1 cross-broker delivery expected; distinct = hash of the operation list")
	n := vk.N(48, 3000)
	for ci := 0; ci < n; ci++ {
		if !vk.Mine(ci) {
			continue
		}
		for ri, reg := range regimes {
			runC05(rec, nil, ci*6+ri, ci, reg)
		}
	}
}

// TestC13Coalesce reuses the simulation with the transport-level findings as the verdicts.
func TestC13Coalesce(t *testing.T) {
	rec := vk.New("C13", "coalesce")
	defer rec.Finish(t)
	rec.Rule("part 2: every payload the real swarms hand to the (transcribed) gossip sender is snapshotted through its own Encode when queued; when the link sends, the bytes are decoded and must dominate the point-wise maximum of the snapshots queued since the last send - " +
		"Notify one-operation states, relayed deltas, the periodic Gossip() payload, the same object queued on several links; case = one simulated cluster run under regime S1/S2; non-trivial = runs in which >=1 send combined >=2 queued payloads; distinct = hash of the operation list")
	n := vk.N(40, 2500)
	for ci := 0; ci < n; ci++ {
		if !vk.Mine(ci) {
			continue
		}
		runC05(nil, rec, ci, ci, []string{"S1", "S2"}[ci%2])
	}
}

func topology(r *vk.Rand, n int, sparse bool) [][2]int {
	var e [][2]int
	if !sparse || n == 2 {
		for i := 0; i < n; i++ {
			for j := i + 1; j < n; j++ {
				e = append(e, [2]int{i, j})
			}
		}
		return e
	}
	switch r.Intn(2) {
	case 0: // line
		for i := 0; i+1 < n; i++ {
			e = append(e, [2]int{i, i + 1})
		}
	default: // star
		for i := 1; i < n; i++ {
			e = append(e, [2]int{0, i})
		}
	}
	return e
}

func runC05(rec5, rec13 *vk.Rec, caseID, seedIdx int, regime string) {
	r := vk.NewRand(vk.Seed(), "C05-"+regime, seedIdx)
	nb := r.Range(2, 4)
	if regime == "S0" || regime == "S1" {
		nb = r.Range(2, 3)
	}
	sparse := (regime == "S2" || regime == "S3" || regime == "S4" || regime == "S4r") && r.Chance(50)
	edges := topology(r, nb, sparse)
	net, err := NewNet(nb, edges, r, "")
	rec := rec5
	if rec == nil {
		rec = rec13
	}
	if err != nil {
		rec.Inconclusive("net: " + err.Error())
		return
	}
	defer net.Close()
	net.Immediate = regime == "S0"
	key := net.Nodes[0].B.MustKey("#/", brokerlab.Perms("rw"))
	var ops []string
	var clients []*cclient
	seqc := 0
	newClient := func(node int) *cclient {
		seqc++
		c := &cclient{node: node, name: fmt.Sprintf("n%dc%d", node, seqc), alive: true, subs: map[string][]string{}}
		c.cl = net.Nodes[node].B.Attach(c.name, nil)
		if rc, err := c.cl.Connect(c.name, "", nil); err != nil || rc != 0 {
			return nil
		}
		clients = append(clients, c)
		return c
	}
	for i := 0; i < nb; i++ {
		for k := r.Range(1, 2); k > 0; k-- {
			if newClient(i) == nil {
				rec.Inconclusive("connect")
				return
			}
		}
	}
	var pubs []*brokerlab.Client
	defer func() {
		// sequential teardown: the simulated transport is single-threaded, so connections are ended one at a
		// time and each Close (which notifies the swarm) is awaited before the next
		net.Immediate = false
		for _, c := range append(append([]*brokerlab.Client(nil), pubs...), liveClients(clients)...) {
			c.Disconnect()
			c.WaitClosed(20e9)
			c.Abort()
		}
		net.Closed = true
	}()
	violated := false
	fail := func(kind, desc string) {
		violated = true
		if rec5 != nil {
			rec5.Violation(caseID, regime+"/"+kind, fmt.Sprintf("regime %s, %d brokers, edges %v: %s", regime, nb, edges, desc), map[string]interface{}{"regime": regime, "brokers": nb, "edges": fmt.Sprint(edges), "ops": ops})
		}
	}
	transport := func(k int) {
		if regime == "S0" {
			return
		}
		for ; k > 0; k-- {
			if !net.Step() {
				return
			}
		}
	}
	isolated := map[int]bool{}
	unsubs := 0
	nops := 40
	// Swarm.update runs every 5 s in production and keeps reachable peers inside their 30 s activity window. A case normally
	// takes a second; on a machine so loaded that it takes longer, the same update is applied here whenever 5 s of real time
	// have passed, so that "the peer went silent" never happens by accident (it is only ever a deliberate step of a regime).
	lastUpdate := time.Now()
	updateAll := func() {
		for i := 0; i < nb; i++ {
			for j := 0; j < nb; j++ {
				if j != i && net.Reachable(i, j) && !isolated[i] && !isolated[j] {
					net.Nodes[i].B.Svc.VerifSwarm().VerifTouch(net.Nodes[j].Name)
				}
			}
		}
		lastUpdate = time.Now()
	}
	for s := 0; s < nops; s++ {
		if time.Since(lastUpdate) > 5*time.Second {
			ops = append(ops, "update on every broker (5 s of real time have passed)")
			updateAll()
		}
		live := []*cclient{}
		for _, c := range clients {
			if c.alive {
				live = append(live, c)
			}
		}
		x := r.Intn(100)
		switch {
		case x < 40 && len(live) > 0: // subscribe (sometimes a burst on one channel)
			c := live[r.Intn(len(live))]
			f := c05Filters[r.Intn(len(c05Filters))]
			burst := 1
			if r.Chance(25) {
				burst = r.Range(2, 4)
			}
			for b := 0; b < burst; b++ {
				ops = append(ops, fmt.Sprintf("%s sub %s", c.name, cstr(f)))
				if rc, _, err := c.cl.Subscribe(key + "/" + cstr(f)); err != nil || rc != 0 {
					rec.Inconclusive(fmt.Sprintf("subscribe: rc=%d %v", rc, err))
					return
				}
				c.subs[cstr(f)] = f
				if b+1 < burst {
					ops = append(ops, fmt.Sprintf("%s unsub %s", c.name, cstr(f)))
					if err := c.cl.Unsubscribe(key + "/" + cstr(f)); err != nil {
						rec.Inconclusive(err.Error())
						return
					}
					delete(c.subs, cstr(f))
					unsubs++
				}
			}
		case x < 60 && len(live) > 0: // unsubscribe
			c := live[r.Intn(len(live))]
			if len(c.subs) == 0 {
				continue
			}
			ks := make([]string, 0)
			for k := range c.subs {
				ks = append(ks, k)
			}
			sort.Strings(ks)
			k := ks[r.Intn(len(ks))]
			ops = append(ops, fmt.Sprintf("%s unsub %s", c.name, k))
			if err := c.cl.Unsubscribe(key + "/" + k); err != nil {
				rec.Inconclusive(err.Error())
				return
			}
			delete(c.subs, k)
			unsubs++
		case x < 68 && len(live) > 1: // disconnect
			c := live[r.Intn(len(live))]
			ops = append(ops, c.name+" disconnect")
			c.cl.Disconnect()
			if !c.cl.WaitClosed(120e9) {
				rec.Inconclusive("broker did not close")
				return
			}
			c.cl.Abort()
			c.alive = false
			if len(c.subs) > 0 {
				unsubs++
			}
		case x < 74: // new client
			nd := r.Intn(nb)
			if c := newClient(nd); c == nil {
				rec.Inconclusive("connect")
				return
			} else {
				ops = append(ops, "connect "+c.name)
			}
		case x < 84 && (regime == "S2" || regime == "S3" || regime == "S4" || regime == "S4r"): // periodic full-state gossip somewhere
			i := r.Intn(nb)
			ops = append(ops, fmt.Sprintf("tick n%d", i))
			net.Tick(i)
		case x < 92 && (regime == "S3" || regime == "S4") && len(edges) > 0: // link flap
			e := edges[r.Intn(len(edges))]
			if l := net.link(e[0], e[1]); l.up {
				ops = append(ops, fmt.Sprintf("link-down %d-%d", e[0], e[1]))
				net.LinkDown(e[0], e[1])
			} else {
				ops = append(ops, fmt.Sprintf("link-up %d-%d", e[0], e[1]))
				net.LinkUp(e[0], e[1])
			}
		case x < 96 && regime == "S4" && nb >= 2: // a broker becomes unreachable long enough to be garbage collected
			i := r.Intn(nb)
			if isolated[i] {
				continue
			}
			ops = append(ops, fmt.Sprintf("isolate n%d (peers GC it, it GCs them)", i))
			for _, e := range edges {
				if e[0] == i || e[1] == i {
					net.LinkDown(e[0], e[1])
				}
			}
			for j := 0; j < nb; j++ {
				if j != i && !net.Reachable(j, i) {
					net.GC(j, i)
					net.GC(i, j)
					// right after the garbage collection of a peer nothing may still be routed to it
					for _, pr := range [][2]int{{j, i}, {i, j}} {
						_, pairs := net.Nodes[pr[0]].B.Svc.VerifTrie().VerifDump()
						for _, p := range pairs {
							if p.Type == message.SubscriberRemote && p.ID == net.Nodes[pr[1]].Name.String() {
								rec.Inc("post_gc_entries_still_routed_to_the_collected_peer") // counted only: part of the known S4 family
							}
						}
						rec.Inc("post_gc_trie_checks")
					}
				}
			}
			isolated[i] = true
		case x < 98 && regime != "S0" && regime != "S1": // Swarm.update(): every few seconds each broker marks the peers it can reach as active
			i := r.Intn(nb)
			for j := 0; j < nb; j++ {
				if j != i && net.Reachable(i, j) {
					net.Nodes[i].B.Svc.VerifSwarm().VerifTouch(net.Nodes[j].Name)
				}
			}
			ops = append(ops, fmt.Sprintf("update n%d (touch reachable peers)", i))
		default:
			transport(r.Range(1, 6))
		}
		transport(r.Range(0, 3))
		if (regime == "S2" || regime == "S3" || regime == "S4") && len(live) > 0 && r.Chance(12) {
			// a client publishes and the peers' 5 ms flusher forwards what was queued for other brokers; with links down
			// there may be no route, GossipUnicast then fails - which must not disturb the routing table
			c := live[r.Intn(len(live))]
			if c.alive {
				ch := c05Channels[r.Intn(len(c05Channels))]
				ops = append(ops, fmt.Sprintf("%s publish %s; flush peer queues", c.name, cstr(ch)))
				if _, err := c.cl.Publish(key+"/"+cstr(ch), []byte("mid-history"), false); err != nil {
					rec.Inconclusive("publish: " + err.Error())
					return
				}
				net.FlushPeers()
				rec.Inc("mid_history_publishes")
			}
		}
	}
	// ---- regime S4r: after the client activity has ended and gossip has quiesced, one broker becomes unreachable,
	// is garbage-collected by the others (and collects them), and returns; no client does anything meanwhile
	if regime == "S4r" {
		for round := 0; round < 2; round++ {
			net.Drain()
			for i := 0; i < nb; i++ {
				net.Tick(i)
				net.Drain()
			}
		}
		i := r.Intn(nb)
		ops = append(ops, fmt.Sprintf("quiesce; isolate n%d (GC both ways); return", i))
		for _, e := range edges {
			if e[0] == i || e[1] == i {
				net.LinkDown(e[0], e[1])
			}
		}
		for j := 0; j < nb; j++ {
			if j != i && !net.Reachable(j, i) {
				net.GC(j, i)
				net.GC(i, j)
			}
		}
	}
	// ---- quiescence: everything reconnected, full-state rounds, queues flushed
	ops = append(ops, "quiesce")
	for _, e := range edges {
		net.LinkUp(e[0], e[1])
	}
	for round := 0; round < 3; round++ {
		net.Drain()
		for i := 0; i < nb; i++ {
			net.Tick(i)
			net.Drain()
		}
	}
	net.FlushPeers()
	net.Drain()
	for _, c := range clients {
		if c.alive {
			c.cl.Take()
		}
	}
	for k, v := range net.Stats {
		rec.Add("transport_"+k, v)
	}
	// transport-level findings are C13 part 2's verdicts
	if rec13 != nil {
		seen := map[string]bool{}
		for _, f := range net.Findings {
			if !seen[f.Kind] {
				seen[f.Kind] = true
				rec13.Violation(caseID, f.Kind, fmt.Sprintf("regime %s: %s", regime, f.Desc), map[string]interface{}{"regime": regime, "ops": ops})
			}
		}
		h := []interface{}{regime, nb, fmt.Sprint(edges)}
		for _, o := range ops {
			h = append(h, o)
		}
		rec13.Case(vk.Hash(h...), net.Stats["coalesced_sends_checked"] > 0)
		if rec13.WantSample() {
			k := len(ops)
			if k > 12 {
				k = 12
			}
			rec13.Sample(map[string]interface{}{"regime": regime, "brokers": nb, "first_ops": ops[:k], "payloads_queued": net.Stats["payloads_queued"], "coalesced": net.Stats["payloads_coalesced"], "sends_combining_several_payloads": net.Stats["coalesced_sends_checked"]})
		}
		return
	}
	// ---- oracle 1: routing tables
	ssidName := map[string][]string{}
	for _, f := range c05Filters {
		ch := security.ParseChannel([]byte("k/" + cstr(f)))
		ssidName[fmt.Sprint([]uint32(message.NewSsid(net.Nodes[0].B.Contract, ch.Query)))] = f
	}
	hasLocal := func(node int, ch []string) bool {
		for _, c := range clients {
			if c.alive && c.node == node {
				for _, f := range c.subs {
					if matchLv(f, ch) {
						return true
					}
				}
			}
		}
		return false
	}
	crossExpected := 0
	for i := 0; i < nb && !violated; i++ {
		_, pairs := net.Nodes[i].B.Svc.VerifTrie().VerifDump()
		for _, ch := range c05Channels {
			got := map[string]bool{}
			for _, p := range pairs {
				if p.Type != message.SubscriberRemote {
					continue
				}
				f, ok := ssidName[fmt.Sprint([]uint32(p.Ssid))]
				if ok && matchLv(f, ch) {
					got[p.ID] = true
				}
			}
			want := map[string]bool{}
			for j := 0; j < nb; j++ {
				if j != i && hasLocal(j, ch) {
					want[net.Nodes[j].Name.String()] = true
					crossExpected++
				}
			}
			rec.Inc("routing_table_comparisons")
			// attribution: does broker i's replicated state agree with the ground truth for the peer and this channel?
			mech := func(peerID string) string {
				j := -1
				for x := range net.Nodes {
					if net.Nodes[x].Name.String() == peerID {
						j = x
					}
				}
				if j < 0 {
					return "unknown-peer"
				}
				entries := net.Nodes[i].B.Svc.VerifSwarm().VerifState().VerifEntries(event.VerifSubs)
				for _, f := range c05Filters {
					if !matchLv(f, ch) {
						continue
					}
					truth := false
					for _, c := range clients {
						if c.alive && c.node == j {
							if _, ok := c.subs[cstr(f)]; ok {
								truth = true
							}
						}
					}
					q := security.ParseChannel([]byte("k/" + cstr(f)))
					want := message.NewSsid(net.Nodes[0].B.Contract, q.Query)
					stateActive := false
					for k, tm := range entries {
						if len(k) < 16 || binary.BigEndian.Uint64([]byte(k[:8])) != uint64(net.Nodes[j].Name) {
							continue
						}
						if (len(k)-16)/4 != len(want) {
							continue
						}
						same := true
						for w := range want {
							if binary.BigEndian.Uint32([]byte(k[16+4*w:20+4*w])) != want[w] {
								same = false
							}
						}
						if same && tm[0] != 0 && tm[0] >= tm[1] {
							stateActive = true
						}
					}
					if stateActive != truth {
						return "replicated-state-wrong"
					}
				}
				return "state-correct-but-peer-bookkeeping-drifted"
			}
			for id := range want {
				if !got[id] {
					fail("missing-route/"+mech(id), fmt.Sprintf("broker %d does not forward channel %s to broker %s which has a live matching subscriber", i, cstr(ch), id))
				}
			}
			for id := range got {
				if !want[id] {
					fail("stale-route/"+mech(id), fmt.Sprintf("broker %d still forwards channel %s to broker %s which has no live matching subscriber", i, cstr(ch), id))
				}
			}
			if violated {
				break
			}
		}
	}
	// ---- oracle 2: deliveries
	if !violated {
		pubs = make([]*brokerlab.Client, nb)
		for i := 0; i < nb; i++ {
			pubs[i] = net.Nodes[i].B.Attach(fmt.Sprintf("pub%d", i), nil)
			if rc, err := pubs[i].Connect(fmt.Sprintf("pub%d", i), "", nil); err != nil || rc != 0 {
				rec.Inconclusive("publisher connect")
				pubs = pubs[:i]
				return
			}
		}
		net.Drain()
		for i := 0; i < nb && !violated; i++ {
			for ci, ch := range c05Channels {
				tag := fmt.Sprintf("probe-n%d-ch%d", i, ci)
				if _, err := pubs[i].Publish(key+"/"+cstr(ch), []byte(tag), false); err != nil {
					rec.Inconclusive("publish: " + err.Error())
					return
				}
				net.FlushPeers()
				net.Drain()
				for _, c := range clients {
					if !c.alive {
						continue
					}
					got, _ := c.cl.Take()
					cnt := 0
					for _, p := range got {
						if p.Payload == tag {
							cnt++
						}
					}
					want := 0
					for _, f := range c.subs {
						if matchLv(f, ch) {
							want = 1
						}
					}
					rec.Inc("delivery_comparisons")
					if cnt != want {
						kind := "missing-delivery"
						if cnt > want {
							kind = "extra-delivery"
						}
						where := "same-broker"
						if c.node != i {
							where = "cross-broker"
						}
						fail(kind+"/"+where, fmt.Sprintf("message published on broker %d to %s: client %s on broker %d (filters %v) received %d copies, expected %d", i, cstr(ch), c.name, c.node, keys(c.subs), cnt, want))
						break
					}
				}
				if violated {
					break
				}
			}
		}
	}
	brokersWithSubs := map[int]bool{}
	for _, c := range clients {
		if c.alive && len(c.subs) > 0 {
			brokersWithSubs[c.node] = true
		}
	}
	h := []interface{}{regime, nb, fmt.Sprint(edges)}
	for _, o := range ops {
		h = append(h, o)
	}
	rec.Case(vk.Hash(h...), len(brokersWithSubs) >= 2 && unsubs >= 1 && crossExpected >= 1)
	rec.Inc("cases_" + regime)
	if rec.WantSample() {
		k := len(ops)
		if k > 14 {
			k = 14
		}
		rec.Sample(map[string]interface{}{"regime": regime, "brokers": nb, "edges": fmt.Sprint(edges), "first_ops": ops[:k], "ops": len(ops)})
	}
}

func keys(m map[string][]string) []string {
	var k []string
	for s := range m {
		k = append(k, s)
	}
	sort.Strings(k)
	return k
}

func liveClients(cs []*cclient) []*brokerlab.Client {
	var out []*brokerlab.Client
	for _, c := range cs {
		if c.alive {
			out = append(out, c.cl)
		}
	}
	return out
}
