//go:build verif

// C05 part "mesh" — the same routing property over the REAL mesh (weaveworks/mesh routers on loopback TCP): the router,
// its gossip channel, the connection goroutines that call Swarm.OnGossip*, Swarm.update and the peers' 5 ms flushers all
// run as in production; nothing of the swarm is substituted. It complements the simulated transport (whose schedules are
// exhaustive in kind but single-threaded) with the real wiring and real concurrency. Race build.
//
// Verdict discipline: convergence over a real network is an "eventually", so every wait for it is bounded by a generous
// watchdog whose expiry is INCONCLUSIVE. Violations are only what can be decided from observed events:
//   * per (publisher, subscriber) the forwarded messages travel one peer queue and one TCP connection in order; after the
//     fence message F_k (published last) has been read by a subscriber, every m_i published before it through the same broker
//     must have been read exactly once and in order - a gap is a loss, a repeat a duplicate;
//   * a client without a matching subscription never receives a tagged message;
//   * a panic on a mesh goroutine ends the process (the child's death is the violation).
package clusterlab

import (
	"fmt"
	"net"
	"os"
	"strings"
	"testing"
	"time"

	"github.com/emitter-io/emitter/internal/message"
	"github.com/emitter-io/emitter/internal/security"
	"github.com/emitter-io/emitter/verif/lab/brokerlab"
	"github.com/emitter-io/emitter/verif/lab/isolate"
	"github.com/emitter-io/emitter/verif/lab/vk"
)

func freePorts(n int) ([]int, error) {
	var ls []net.Listener
	var out []int
	for i := 0; i < n; i++ {
		l, err := net.Listen("tcp", "127.0.0.1:0")
		if err != nil {
			return nil, err
		}
		ls = append(ls, l)
		out = append(out, l.Addr().(*net.TCPAddr).Port)
	}
	for _, l := range ls {
		l.Close()
	}
	return out, nil
}

// waitFor polls cond until it holds or the watchdog expires.
func waitFor(d time.Duration, cond func() bool) bool {
	deadline := time.Now().Add(d)
	for time.Now().Before(deadline) {
		if cond() {
			return true
		}
		time.Sleep(20 * time.Millisecond)
	}
	return cond()
}

// meshCase runs in a child process (the routers cannot be stopped; a panic on a mesh goroutine must not take the harness down).
func meshCase(in []byte) string {
	var seed int64
	var ci int
	fmt.Sscanf(string(in), "%d,%d", &seed, &ci)
	r := vk.NewRand(seed, "C05mesh", ci)
	nb := 2 + ci%2
	ports, err := freePorts(nb)
	if err != nil {
		return "inconclusive: ports: " + err.Error()
	}
	var bs []*brokerlab.Broker
	lic := ""
	for i := 0; i < nb; i++ {
		b, err := brokerlab.NewBroker(brokerlab.Opts{License: lic, Node: i + 1, MeshPort: ports[i]})
		if err != nil {
			return "inconclusive: broker: " + err.Error()
		}
		lic = b.LicString
		bs = append(bs, b)
	}
	for i := 1; i < nb; i++ {
		bs[i].Join(ports[0])
	}
	if !waitFor(90*time.Second, func() bool {
		for _, b := range bs {
			if b.Svc.VerifSwarm().NumPeers() < nb-1 {
				return false
			}
		}
		return true
	}) {
		return "inconclusive: the mesh did not become fully connected within the watchdog"
	}
	key := bs[0].MustKey("#/", brokerlab.Perms("rw"))
	mk := func(b *brokerlab.Broker, name string) (*brokerlab.Client, string) {
		c := b.Attach(name, nil)
		c.Wait = 120 * time.Second
		if rc, err := c.Connect(name, "", nil); err != nil || rc != 0 {
			return nil, "connect"
		}
		return c, ""
	}
	// subscribers: on broker 0 to m/x/, on the last broker to m/+/ (both match m/x/); a bystander on broker 0 without any
	subA, e1 := mk(bs[0], "subA")
	subZ, e2 := mk(bs[nb-1], "subZ")
	idle, e3 := mk(bs[0], "idle")
	pubB := nb - 1
	if nb == 3 {
		pubB = 1
	}
	pub, e4 := mk(bs[pubB], "pub")
	if e1+e2+e3+e4 != "" {
		return "inconclusive: connect"
	}
	if rc, _, err := subA.Subscribe(key + "/m/x/"); err != nil || rc != 0 {
		return "inconclusive: subscribe"
	}
	if rc, _, err := subZ.Subscribe(key + "/m/+/"); err != nil || rc != 0 {
		return "inconclusive: subscribe"
	}
	ssidOf := func(ch string) string {
		q := security.ParseChannel([]byte("k/" + ch))
		return fmt.Sprint([]uint32(message.NewSsid(bs[0].Contract, q.Query)))
	}
	mine := map[string]bool{ssidOf("m/x/"): true, ssidOf("m/+/"): true}
	// routed: how many remote peers the broker's trie holds under the two filters of this case (every broker's surveyor also
	// subscribes to the cluster's query channel: those remote entries are not counted)
	routed := func(b *brokerlab.Broker, want int) bool {
		_, pairs := b.Svc.VerifTrie().VerifDump()
		n := 0
		for _, p := range pairs {
			if p.Type == message.SubscriberRemote && mine[fmt.Sprint([]uint32(p.Ssid))] {
				n++
			}
		}
		return n == want
	}
	// the publisher's broker must learn both remote subscriptions (or one, if it hosts subZ itself)
	wantRoutes := 2
	if pubB == nb-1 {
		wantRoutes = 1
	}
	if !waitFor(90*time.Second, func() bool { return routed(bs[pubB], wantRoutes) }) {
		return "inconclusive: the publisher's broker did not learn the remote subscriptions within the watchdog"
	}
	collect := func(c *brokerlab.Client, fence string, d time.Duration) ([]string, bool) {
		var got []string
		ok := waitFor(d, func() bool {
			ps, _ := c.Take()
			for _, p := range ps {
				if strings.HasPrefix(p.Payload, "mesh|") {
					got = append(got, p.Payload)
				}
			}
			return len(got) > 0 && got[len(got)-1] == fence
		})
		return got, ok
	}
	check := func(who string, got []string, n int, round int) string {
		for i := 0; i < n; i++ {
			want := fmt.Sprintf("mesh|r%d|%d", round, i)
			if i >= len(got) || got[i] != want {
				return fmt.Sprintf("violation: %s read the fence of round %d but its %d-th message is %q, expected %q (forwarded messages of one publisher travel one peer queue in order: lost, duplicated or reordered); received %d of %d", who, round, i, at(got, i), want, len(got)-1, n)
			}
		}
		if len(got) != n+1 {
			return fmt.Sprintf("violation: %s received %d tagged messages in round %d, %d were published (duplicates)", who, len(got), round, n+1)
		}
		return ""
	}
	type named struct {
		name string
		c    *brokerlab.Client
	}
	subs := []named{{"subscriber on broker 0", subA}, {"subscriber on the last broker", subZ}}
	silent := []*brokerlab.Client{idle}
	total := 0
	for round := 0; round < 3; round++ {
		n := r.Range(20, 120)
		for i := 0; i < n; i++ {
			if _, err := pub.Publish(key+"/m/x/", []byte(fmt.Sprintf("mesh|r%d|%d", round, i)), false); err != nil {
				return "inconclusive: publish: " + err.Error()
			}
		}
		fence := fmt.Sprintf("mesh|r%d|fence", round)
		if _, err := pub.Publish(key+"/m/x/", []byte(fence), false); err != nil {
			return "inconclusive: publish: " + err.Error()
		}
		for _, s := range subs {
			got, ok := collect(s.c, fence, 90*time.Second)
			if !ok {
				return fmt.Sprintf("inconclusive: the fence of round %d did not reach the %s within the watchdog (%d messages had arrived)", round, s.name, len(got))
			}
			if why := check(s.name, got, n, round); why != "" {
				return why
			}
		}
		for _, c := range silent {
			if ps, _ := c.Take(); len(ps) > 0 {
				return fmt.Sprintf("violation: client %s, which holds no matching subscription, received %d messages, e.g. %q on %q", c.Name, len(ps), ps[0].Payload, ps[0].Topic)
			}
		}
		total += n + 1
		if round == 1 { // the subscriber on broker 0 leaves: the route must go away, and it must not be sent anything more
			if err := subA.Unsubscribe(key + "/m/x/"); err != nil {
				return "inconclusive: unsubscribe"
			}
			if !waitFor(90*time.Second, func() bool { return routed(bs[pubB], wantRoutes-1) }) {
				return "inconclusive: the route to the broker whose subscriber left did not go away within the watchdog"
			}
			subs = subs[1:] // from now on the client that unsubscribed must stay silent
			silent = append(silent, subA)
			if wantRoutes-1 == 0 {
				break
			}
		}
	}
	return fmt.Sprintf("ok brokers=%d forwarded=%d", nb, total)
}

func at(s []string, i int) string {
	if i < len(s) {
		return s[i]
	}
	return "<nothing>"
}

func TestIsolateMesh(t *testing.T) {
	if !isolate.ChildMain(map[string]isolate.Handler{"mesh": meshCase}) {
		t.Skip("child only")
	}
}

func TestC05Mesh(t *testing.T) {
	rec := vk.New("C05", "mesh")
	defer rec.Finish(t)
	rec.Rule("case = 2-3 real brokers whose real mesh routers are connected over loopback TCP (nothing of the swarm substituted; child process, race build); subscribers on the first and the last broker, a publisher on another one, a bystander without subscription; 3 rounds of 20-120 QoS-1 publishes followed by a fence message, one subscriber leaving after round 2; " +
		"every wait for convergence is bounded by a watchdog whose expiry is inconclusive; violations: a subscriber that has read the fence lacks, repeats or reorders a message published before it, a client without a matching subscription receives a tagged message, the process dies; non-trivial = cases whose three rounds completed; distinct = (brokers, seed, case)")
	n := vk.N(4, 40)
	var ins [][]byte
	var idx []int
	for ci := 0; ci < n; ci++ {
		if vk.Mine(ci) {
			ins = append(ins, []byte(fmt.Sprintf("%d,%d", vk.Seed(), ci)))
			idx = append(idx, ci)
		}
	}
	if len(ins) == 0 {
		return
	}
	outs, err := isolate.Run(os.Getenv("VERIF_BIN"), "TestIsolateMesh", "mesh", os.Getenv("VERIF_SCRATCH"), ins, 600*time.Second)
	if err != nil {
		rec.Inconclusive("isolate: " + err.Error())
		return
	}
	for i, o := range outs {
		ci := idx[i]
		switch {
		case o.Died && o.Kind != "hang":
			rec.Case(vk.Hash("mesh", vk.Seed(), ci), true)
			rec.Violation(ci, "mesh/process-"+o.Signature, "the broker process died while running on the real mesh: "+o.Signature, map[string]interface{}{"stderr": o.Tail})
		case o.Died:
			rec.Case(vk.Hash("mesh", vk.Seed(), ci), false)
			rec.Inconclusive("real-mesh case exceeded its watchdog")
		case strings.HasPrefix(o.Result, "violation: "):
			rec.Case(vk.Hash("mesh", vk.Seed(), ci), true)
			rec.Violation(ci, "mesh/forwarding", o.Result[11:], nil)
		case strings.HasPrefix(o.Result, "ok"):
			rec.Case(vk.Hash("mesh", vk.Seed(), ci), true)
			var nbk, fw int
			fmt.Sscanf(o.Result, "ok brokers=%d forwarded=%d", &nbk, &fw)
			rec.Add("messages_forwarded_over_real_mesh", int64(fw))
			rec.Inc("real_mesh_cases_completed")
		default:
			rec.Case(vk.Hash("mesh", vk.Seed(), ci), false)
			rec.Inconclusive("real mesh: " + o.Result)
		}
		if rec.WantSample() {
			rec.Sample(map[string]interface{}{"case": ci, "result": o.Result})
		}
	}
}
