// Package vk is the small kit shared by every harness: deterministic PRNG, sharding of the case
// index range, and the recorder that writes what a run observed (cases, counters, samples,
// violations with their known-finding matcher, inconclusive cases) as one JSON file per shard.
// The driver (/verif/vcheck) merges the shards, applies /verif/known_findings.json and writes
// the evidence file. Nothing in here decides a property.
package vk

import (
	"encoding/json"
	"fmt"
	"hash/fnv"
	"os"
	"path/filepath"
	"sort"
	"strconv"
	"strings"
	"sync"
	"testing"
	"time"
)

// ---------------------------------------------------------------------------------------------
// PRNG: splitmix64. Case i of property P under seed S is generated from (S, P, i) only.

type Rand struct{ s uint64 }

func mix(z uint64) uint64 {
	z += 0x9e3779b97f4a7c15
	z = (z ^ (z >> 30)) * 0xbf58476d1ce4e5b9
	z = (z ^ (z >> 27)) * 0x94d049bb133111eb
	return z ^ (z >> 31)
}

// NewRand derives a stream from the seed, a label and an index.
func NewRand(seed int64, label string, idx int) *Rand {
	h := fnv.New64a()
	h.Write([]byte(label))
	return &Rand{s: mix(uint64(seed)) ^ mix(h.Sum64()) ^ mix(uint64(idx)*0x2545F4914F6CDD1D+1)}
}

func (r *Rand) U64() uint64 {
	r.s += 0x9e3779b97f4a7c15
	z := r.s
	z = (z ^ (z >> 30)) * 0xbf58476d1ce4e5b9
	z = (z ^ (z >> 27)) * 0x94d049bb133111eb
	return z ^ (z >> 31)
}
func (r *Rand) U32() uint32 { return uint32(r.U64() >> 32) }

// Intn returns a value in [0,n).
func (r *Rand) Intn(n int) int {
	if n <= 1 {
		return 0
	}
	return int(r.U64() % uint64(n))
}

// Range returns a value in [lo,hi].
func (r *Rand) Range(lo, hi int) int { return lo + r.Intn(hi-lo+1) }
func (r *Rand) Bool() bool           { return r.U64()&1 == 1 }

// Chance is true with probability pct/100.
func (r *Rand) Chance(pct int) bool { return r.Intn(100) < pct }
func (r *Rand) Bytes(n int) []byte {
	b := make([]byte, n)
	for i := 0; i < n; i += 8 {
		v := r.U64()
		for j := 0; j < 8 && i+j < n; j++ {
			b[i+j] = byte(v >> (8 * j))
		}
	}
	return b
}
func (r *Rand) Perm(n int) []int {
	p := make([]int, n)
	for i := range p {
		p[i] = i
	}
	for i := n - 1; i > 0; i-- {
		j := r.Intn(i + 1)
		p[i], p[j] = p[j], p[i]
	}
	return p
}

// Pick returns one of the strings.
func (r *Rand) Pick(s ...string) string { return s[r.Intn(len(s))] }

// ---------------------------------------------------------------------------------------------
// Environment

func envInt(name string, def int) int {
	if v := os.Getenv(name); v != "" {
		if n, err := strconv.Atoi(v); err == nil {
			return n
		}
	}
	return def
}

func Seed() int64 {
	if v := os.Getenv("VERIF_SEED"); v != "" {
		if n, err := strconv.ParseInt(v, 10, 64); err == nil {
			return n
		}
	}
	return 1
}

// Tier is "quick" or "thorough".
func Tier() string {
	if os.Getenv("VERIF_TIER") == "thorough" {
		return "thorough"
	}
	return "quick"
}

// N picks the tier's size.
func N(quick, thorough int) int {
	if Tier() == "thorough" {
		return thorough
	}
	return quick
}

func Shard() (int, int) { return envInt("VERIF_SHARD", 0), envInt("VERIF_NSHARDS", 1) }

// OnlyCase returns the single case index to run when replaying, or -1.
func OnlyCase() int { return envInt("VERIF_ONLY_CASE", -1) }

// Mine tells whether case i belongs to this shard (or is the replayed case).
func Mine(i int) bool {
	if oc := OnlyCase(); oc >= 0 {
		return i == oc
	}
	s, n := Shard()
	return i%n == s
}

// ---------------------------------------------------------------------------------------------
// Recorder

type Violation struct {
	Matcher string      `json:"matcher"` // known-finding key: specific input class / call site / history class
	Desc    string      `json:"desc"`
	Replay  string      `json:"replay"`
	Case    int         `json:"case"`
	Witness interface{} `json:"witness,omitempty"`
}

type shardOut struct {
	Property     string           `json:"property"`
	Part         string           `json:"part"`
	Seed         int64            `json:"seed"`
	Tier         string           `json:"tier"`
	Shard        int              `json:"shard"`
	NShards      int              `json:"nshards"`
	Evaluations  int64            `json:"evaluations"`
	Fingerprints []uint64         `json:"fingerprints"`
	FpDropped    int64            `json:"fp_dropped"`
	Counters     map[string]int64 `json:"counters"`
	Samples      []interface{}    `json:"samples"`
	Violations   []Violation      `json:"violations"`
	Inconclusive []string         `json:"inconclusive"`
	Notes        []string         `json:"notes"`
	Rule         string           `json:"rule"`
	Exhaustive   bool             `json:"exhaustive"`
	Complete     bool             `json:"complete"`
	WallS        float64          `json:"wall_s"`
}

type Rec struct {
	mu    sync.Mutex
	out   shardOut
	fps   map[uint64]struct{}
	start time.Time
	vseen map[string]int
}

const fpCap = 150000

// New creates the recorder of one (property, part) in this shard.
func New(property, part string) *Rec {
	s, n := Shard()
	return &Rec{
		out: shardOut{Property: property, Part: part, Seed: Seed(), Tier: Tier(), Shard: s, NShards: n,
			Counters: map[string]int64{}},
		fps: map[uint64]struct{}{}, start: time.Now(), vseen: map[string]int{},
	}
}

// Hash fingerprints a normalised case description.
func Hash(parts ...interface{}) uint64 {
	h := fnv.New64a()
	for _, p := range parts {
		fmt.Fprintf(h, "%v\x00", p)
	}
	return h.Sum64()
}

// Case records one executed case; fp identifies it, nontrivial says whether it satisfies the
// property's stated non-triviality rule.
func (r *Rec) Case(fp uint64, nontrivial bool) {
	r.mu.Lock()
	r.out.Evaluations++
	if nontrivial {
		if _, ok := r.fps[fp]; !ok {
			if len(r.fps) < fpCap {
				r.fps[fp] = struct{}{}
			} else {
				r.out.FpDropped++
			}
		}
	}
	r.mu.Unlock()
}

func (r *Rec) Add(name string, n int64) {
	r.mu.Lock()
	r.out.Counters[name] += n
	r.mu.Unlock()
}
func (r *Rec) Inc(name string) { r.Add(name, 1) }

// Max keeps the maximum under name.
func (r *Rec) Max(name string, n int64) {
	r.mu.Lock()
	if n > r.out.Counters[name] {
		r.out.Counters[name] = n
	}
	r.mu.Unlock()
}

// Sample keeps up to 4 literal cases per shard.
func (r *Rec) Sample(v interface{}) {
	r.mu.Lock()
	if len(r.out.Samples) < 4 {
		r.out.Samples = append(r.out.Samples, v)
	}
	r.mu.Unlock()
}
func (r *Rec) WantSample() bool {
	r.mu.Lock()
	defer r.mu.Unlock()
	return len(r.out.Samples) < 4
}

func (r *Rec) Note(s string) {
	r.mu.Lock()
	if len(r.out.Notes) < 20 {
		r.out.Notes = append(r.out.Notes, s)
	}
	r.mu.Unlock()
}
func (r *Rec) Rule(s string)     { r.out.Rule = s }
func (r *Rec) Exhaustive(b bool) { r.out.Exhaustive = b }

func (r *Rec) Inconclusive(desc string) {
	r.mu.Lock()
	if len(r.out.Inconclusive) < 50 {
		r.out.Inconclusive = append(r.out.Inconclusive, desc)
	}
	r.out.Counters["inconclusive"]++
	r.mu.Unlock()
}

// Violation records a refuting observation. At most 3 witnesses are written per matcher; the
// count per matcher is kept in counters.
func (r *Rec) Violation(caseIdx int, matcher, desc string, witness interface{}) {
	// a wall-clock watchdog that expired while the harness waited for a reply decides nothing (§1): inconclusive
	if strings.Contains(desc, "watchdog expired") {
		r.Inconclusive(fmt.Sprintf("case %d [%s]: %s", caseIdx, matcher, desc))
		return
	}
	r.mu.Lock()
	defer r.mu.Unlock()
	r.out.Counters["violations_observed"]++
	r.vseen[matcher]++
	if r.vseen[matcher] > 3 {
		return
	}
	dir := os.Getenv("VERIF_REPLAY_DIR")
	path := ""
	if dir != "" {
		os.MkdirAll(dir, 0o755)
		path = filepath.Join(dir, fmt.Sprintf("%d-%s-%d-%d.json", r.out.Seed, r.out.Part, caseIdx, r.vseen[matcher]))
		b, _ := json.MarshalIndent(map[string]interface{}{
			"property": r.out.Property, "part": r.out.Part, "seed": r.out.Seed, "tier": r.out.Tier,
			"case": caseIdx, "matcher": matcher, "desc": desc, "witness": witness,
		}, "", " ")
		os.WriteFile(path, b, 0o644)
	}
	if len(desc) > 2000 {
		desc = desc[:2000] + "…"
	}
	r.out.Violations = append(r.out.Violations, Violation{Matcher: matcher, Desc: desc, Replay: path, Case: caseIdx})
}

func (r *Rec) Violations() int {
	r.mu.Lock()
	defer r.mu.Unlock()
	return int(r.out.Counters["violations_observed"])
}

// Finish writes the shard file. It never fails the test: verdicts come from the file.
func (r *Rec) Finish(t testing.TB) {
	r.mu.Lock()
	defer r.mu.Unlock()
	r.out.Fingerprints = make([]uint64, 0, len(r.fps))
	for k := range r.fps {
		r.out.Fingerprints = append(r.out.Fingerprints, k)
	}
	sort.Slice(r.out.Fingerprints, func(i, j int) bool { return r.out.Fingerprints[i] < r.out.Fingerprints[j] })
	r.out.Complete = true
	r.out.WallS = time.Since(r.start).Seconds()
	dir := os.Getenv("VERIF_OUT")
	if dir == "" {
		t.Logf("%s/%s: evaluations=%d distinct=%d violations=%d inconclusive=%d counters=%v",
			r.out.Property, r.out.Part, r.out.Evaluations, len(r.fps), len(r.out.Violations), len(r.out.Inconclusive), r.out.Counters)
		for _, v := range r.out.Violations {
			t.Logf("VIOLATION[%s] case %d: %s", v.Matcher, v.Case, v.Desc)
		}
		return
	}
	os.MkdirAll(dir, 0o755)
	b, err := json.Marshal(&r.out)
	if err != nil {
		// a sample that cannot be marshalled must not lose the verdicts
		r.out.Samples = []interface{}{fmt.Sprintf("unmarshallable sample: %v", err)}
		b, _ = json.Marshal(&r.out)
	}
	name := filepath.Join(dir, fmt.Sprintf("%s-%s-%d.json", r.out.Property, r.out.Part, r.out.Shard))
	if err := os.WriteFile(name, b, 0o644); err != nil {
		t.Fatalf("write shard file: %v", err)
	}
}

// Pick3 returns one of three ints.
func (r *Rand) Pick3(a, b, c int) int { return []int{a, b, c}[r.Intn(3)] }
