//go:build verif

// C08 part "live" — connections that end WHILE messages are being delivered to them (DESIGN §10.5c-f).
// The cut-point enumeration of brokerlab/c08_test.go ends a victim on an otherwise quiet broker; here
// 3-8 victims subscribed to hot channels (plain socket or behind the real listener.Conn at flush rate
// 1/3/1000, with and without a last will, some with a link-created subscription) are ended - abrupt
// close, half close, DISCONNECT, malformed packet - at seeded instants while 2-4 publishers keep
// publishing to those channels, so Conn.Close runs concurrently with Conn.Send on the same connection
// and with Subscribe/Unsubscribe of the others. Race build.
//
// Oracle, after a logical end (every publisher has read its last PUBACK; the broker has closed its end of
// every victim's and publisher's socket): the trie dump equals the dump taken before the victims
// connected, the connection counter is back, a stable observer has received every publisher's sequence
// 1..n per channel in order exactly once (other connections untouched) and every due will exactly once
// and no other, presence watchers saw a balanced subscribe/unsubscribe stream per victim connection
// ending in unsubscribed, and one more tagged publish per channel reaches the observer exactly once.
package netlab

import (
	"encoding/json"
	"fmt"
	"net"
	"sort"
	"strconv"
	"strings"
	"sync"
	"testing"
	"time"

	"github.com/eclipse/paho.mqtt.golang/packets"
	"github.com/emitter-io/emitter/internal/network/listener"
	"github.com/emitter-io/emitter/verif/lab/brokerlab"
	"github.com/emitter-io/emitter/verif/lab/fakenet"
	"github.com/emitter-io/emitter/verif/lab/mqttref"
	"github.com/emitter-io/emitter/verif/lab/vk"
)

type liveVictim struct {
	name     string
	link     bool
	cl, sv   *fakenet.Conn
	lc       *listener.Conn
	rate     int
	channels []string
	will     bool
	ending   string
	after    int // bytes received before the victim ends
	raw      []byte
}

func TestC08Live(t *testing.T) {
	rec := vk.New("C08", "live")
	defer rec.Finish(t)
	rec.Rule("case = one run on a real broker: 3-8 victim connections (plain or behind the real listener.Conn at flush rate 1/3/1000; with/without a last will; some with a link auto-subscription) subscribed to the channels 2-4 publishers are publishing to, each ended (abrupt close / half close / DISCONNECT / malformed packet) after a seeded number of received bytes while the traffic continues; " +
		"after every publisher's last PUBACK and the broker-side close of every victim socket: trie dump = dump before the victims, connection counter back, stable observer got 1..n per (publisher, channel) in order once and each due will exactly once, presence stream per victim balanced and ending unsubscribed, a final tagged publish per channel reaches the observer once; " +
		"non-trivial = at least one victim ended after it had received traffic and before the publishers finished; distinct = hash of (configuration, victims' endings and cut points, number of messages each victim received)")
	n := vk.N(16, 600)
	for ci := 0; ci < n; ci++ {
		if !vk.Mine(ci) {
			continue
		}
		runC08Live(rec, ci)
	}
}

func runC08Live(rec *vk.Rec, ci int) {
	r := vk.NewRand(vk.Seed(), "C08live", ci)
	b, err := brokerlab.NewBroker(brokerlab.Opts{})
	if err != nil {
		rec.Inconclusive(err.Error())
		return
	}
	defer b.Close()
	fail := func(kind, desc string, wit interface{}) { rec.Violation(ci, "live/"+kind, desc, wit) }
	kAll := b.MustKey("#/", brokerlab.Perms("rwlsp"))
	chans := []string{"a/", "a/b/", "c/"}

	obs := b.Attach("obs", nil)
	if rc, err := obs.Connect("obs", "ou", nil); err != nil || rc != 0 {
		rec.Inconclusive(fmt.Sprintf("observer connect: %v", err))
		return
	}
	for _, c := range []string{"a/", "c/", "w/"} {
		if rc, _, err := obs.Subscribe(kAll + "/" + c); err != nil || rc == 0x80 {
			rec.Inconclusive(fmt.Sprintf("observer subscribe: %v", err))
			return
		}
	}
	watcher := b.Attach("watcher", nil)
	helper := b.Attach("helper", nil)
	watcher.Connect("watcher", "wu", nil)
	helper.Connect("helper", "hu", nil)
	tr := true
	if rep, err := watcher.Request("presence", map[string]interface{}{"key": kAll, "channel": "a/", "status": false, "changes": &tr}); err != nil || rep.Status != 200 {
		rec.Inconclusive(fmt.Sprintf("presence watch: %v", err))
		return
	}
	persistent := map[string]bool{}
	for _, c := range []*brokerlab.Client{obs, watcher, helper} {
		id, err := c.Me()
		if err != nil {
			rec.Inconclusive("me: " + err.Error())
			return
		}
		persistent[id] = true
	}
	if err := b.PresenceBarrier(helper, kAll, 1); err != nil {
		rec.Inconclusive("barrier: " + err.Error())
		return
	}
	watcher.Take()
	dump := func() (int, map[string]bool) {
		nodes, pairs := b.Svc.VerifTrie().VerifDump()
		out := map[string]bool{}
		for _, p := range pairs {
			out[fmt.Sprintf("%v|%s", []uint32(p.Ssid), p.ID)] = true
		}
		return nodes, out
	}
	baseNodes, baseline := dump()
	baseConns := b.Svc.VerifConnections()

	// victims
	nv := r.Range(3, 8)
	npub := r.Range(2, 4)
	perPub := vk.N(160, 600)
	var victims []*liveVictim
	for i := 0; i < nv; i++ {
		v := &liveVictim{name: fmt.Sprintf("v%d", i)}
		v.cl, v.sv = fakenet.Pair()
		v.will = r.Chance(60)
		v.ending = r.Pick("abrupt", "abrupt", "half-close", "disconnect", "malformed")
		nch := r.Range(1, len(chans))
		for _, k := range r.Perm(len(chans))[:nch] {
			v.channels = append(v.channels, chans[k])
		}
		var will *mqttref.Will
		if v.will {
			will = &mqttref.Will{Topic: kAll + "/w/" + v.name + "/", Payload: []byte("will-" + v.name)}
		}
		hs := mqttref.Connect(v.name, "vu", will)
		var topics []string
		for _, c := range v.channels {
			topics = append(topics, kAll+"/"+c)
		}
		hs = append(hs, mqttref.Subscribe(7, topics...)...)
		if r.Chance(30) { // a link with auto-subscribe on a hot sub-channel
			body, _ := json.Marshal(map[string]interface{}{"name": "l" + strconv.Itoa(i%10), "key": kAll, "channel": "a/b/", "subscribe": true})
			hs = append(hs, mqttref.Publish(0, "emitter/link/", body, 0, false)...)
			v.link = true
			if !contains(v.channels, "a/b/") {
				v.channels = append(v.channels, "a/b/")
			}
		}
		// the victim ends once it has received this many bytes beyond the handshake replies (messages are ~60 bytes)
		v.after = r.Pick3(0, r.Range(1, 2000), r.Range(2000, 30000))
		switch k := r.Intn(4); k {
		case 0:
			b.Svc.VerifAttach(v.sv)
		default:
			v.rate = []int{1, 3, 1000}[k-1]
			v.lc = listener.VerifNewConn(v.sv, v.rate)
			b.Svc.VerifAttach(v.lc)
		}
		v.cl.Write(hs)
		victims = append(victims, v)
	}
	// every victim's SUBACK is in its stream before traffic starts
	for _, v := range victims {
		deadline := time.Now().Add(120 * time.Second)
		for {
			if v.lc != nil {
				v.lc.Flush()
			}
			v.raw = append(v.raw, v.cl.TakeAll()...)
			if liveHandshakeDone(v.raw, v.link) {
				break
			}
			if time.Now().After(deadline) {
				rec.Inconclusive("victim handshake watchdog")
				return
			}
			v.cl.WaitData(20 * time.Millisecond)
		}
	}
	nodesWith, _ := dump()
	_ = nodesWith

	// publishers
	var wg sync.WaitGroup
	var mu sync.Mutex
	sent := map[string]int{}
	var perr []string
	var pubServers []*fakenet.Conn
	pubsDone := make(chan struct{})
	for p := 0; p < npub; p++ {
		name := fmt.Sprintf("p%d", p)
		pr := vk.NewRand(vk.Seed(), "C08live-"+name, ci)
		c := b.Attach(name, nil)
		pubServers = append(pubServers, c.Server.(*fakenet.Conn))
		wg.Add(1)
		go func() {
			defer wg.Done()
			defer c.Abort()
			if rc, err := c.Connect(name, "", nil); err != nil || rc != 0 {
				mu.Lock()
				perr = append(perr, fmt.Sprintf("publisher connect: %v", err))
				mu.Unlock()
				return
			}
			seq := map[string]int{}
			for i := 0; i < perPub; i++ {
				ch := chans[pr.Intn(len(chans))]
				seq[ch]++
				payload := fmt.Sprintf("%s|%s|%d|%s", name, ch, seq[ch], strings.Repeat("x", pr.Intn(60)))
				if _, err := c.Publish(kAll+"/"+ch, []byte(payload), false); err != nil {
					mu.Lock()
					perr = append(perr, "publisher: "+err.Error())
					mu.Unlock()
					return
				}
				c.Take()
			}
			mu.Lock()
			for ch, n := range seq {
				sent[name+"|"+ch] = n
			}
			mu.Unlock()
		}()
	}
	go func() { wg.Wait(); close(pubsDone) }()

	// killers: each victim is ended once it has received `after` more bytes (or when the publishers are done)
	var kwg sync.WaitGroup
	endedDuringTraffic := 0
	var emu sync.Mutex
	for _, v := range victims {
		kwg.Add(1)
		go func(v *liveVictim) {
			defer kwg.Done()
			base := len(v.raw)
		wait:
			for len(v.raw)-base < v.after {
				select {
				case <-pubsDone:
					break wait
				default:
					v.cl.WaitData(2 * time.Millisecond)
					v.raw = append(v.raw, v.cl.TakeAll()...)
				}
			}
			select {
			case <-pubsDone:
			default:
				emu.Lock()
				endedDuringTraffic++
				emu.Unlock()
			}
			switch v.ending {
			case "abrupt":
				v.cl.Close()
			case "half-close":
				v.cl.CloseWrite()
			case "disconnect":
				v.cl.Write(mqttref.Disconnect())
			case "malformed":
				v.cl.Write([]byte{0x30, 0xff, 0xff, 0xff, 0xff, 0x7f, 0x00})
			}
		}(v)
	}
	// joiners: connections that subscribe to the channels the victims sit on while those victims are ending, and stay.
	// Their acknowledged subscriptions are "subscriptions of other connections": untouched by anybody's ending.
	type joiner struct {
		cl    *brokerlab.Client
		chans []string
	}
	var joiners []*joiner
	var jmu sync.Mutex
	var jwg sync.WaitGroup
	jerr := ""
	for j := 0; j < 3; j++ {
		jr := vk.NewRand(vk.Seed(), fmt.Sprintf("C08live-j%d", j), ci)
		jwg.Add(1)
		go func(j int, jr *vk.Rand) {
			defer jwg.Done()
			cl := b.Attach(fmt.Sprintf("j%d", j), nil)
			if rc, err := cl.Connect(cl.Name, "ju", nil); err != nil || rc != 0 {
				return
			}
			jn := &joiner{cl: cl}
			for k := 0; k < 12; k++ { // subscribe / unsubscribe churn on the hot channels, ending subscribed
				ch := chans[jr.Intn(len(chans))]
				if rc, _, err := cl.Subscribe(kAll + "/" + ch); err != nil || rc == 0x80 {
					jmu.Lock()
					jerr = fmt.Sprintf("joiner subscribe: rc=%#x %v", rc, err)
					jmu.Unlock()
					return
				}
				if k < 10 {
					cl.Unsubscribe(kAll + "/" + ch)
				} else if !contains(jn.chans, ch) {
					jn.chans = append(jn.chans, ch)
				}
			}
			jmu.Lock()
			joiners = append(joiners, jn)
			jmu.Unlock()
		}(j, jr)
	}
	kwg.Wait()
	jwg.Wait()
	select {
	case <-pubsDone:
	case <-time.After(600 * time.Second):
		rec.Inconclusive("publishers did not finish within the watchdog")
		return
	}
	if len(perr) > 0 {
		rec.Inconclusive(perr[0])
		return
	}
	// logical end: the broker has closed its end of every victim and publisher socket (Conn.Close closes the socket last)
	for _, sv := range append(pubServers, victimServers(victims)...) {
		select {
		case <-sv.Closed():
		case <-time.After(180 * time.Second):
			rec.Inconclusive("broker did not close an ended connection within the watchdog")
			return
		}
	}
	for _, v := range victims {
		v.cl.Close()
	}
	wit := func() map[string]interface{} {
		var vs []string
		for _, v := range victims {
			vs = append(vs, fmt.Sprintf("%s rate=%d will=%v chans=%v ending=%s after=%dB received=%dB", v.name, v.rate, v.will, v.channels, v.ending, v.after, len(v.raw)))
		}
		return map[string]interface{}{"victims": vs, "publishers": npub, "per_publisher": perPub}
	}
	if jerr != "" {
		rec.Inconclusive(jerr)
		return
	}
	// 1. trie and counter: the dump must be the baseline plus exactly the joiners' final subscriptions
	jids := map[string]*joiner{}
	for _, jn := range joiners {
		id, err := jn.cl.Me()
		if err != nil {
			rec.Inconclusive("me: " + err.Error())
			return
		}
		jids[id] = jn
		persistent[id] = true // the joiners stay: their presence transitions are not the victims'
	}
	_, pairsNow := b.Svc.VerifTrie().VerifDump()
	d := map[string]bool{}
	jgot := map[string]int{}
	for _, p := range pairsNow {
		if _, ok := jids[p.ID]; ok {
			jgot[p.ID]++
			continue
		}
		d[fmt.Sprintf("%v|%s", []uint32(p.Ssid), p.ID)] = true
	}
	if diff := liveDiff(d, baseline); diff != "" {
		fail("left-behind", fmt.Sprintf("trie differs from the dump before the victims connected: %s", diff), wit())
	}
	for id, jn := range jids {
		if jgot[id] != len(jn.chans) {
			fail("other-connection-disturbed", fmt.Sprintf("joiner %s holds %d acknowledged subscriptions %v (made while the victims were ending) but the trie stores %d for it", jn.cl.Name, len(jn.chans), jn.chans, jgot[id]), wit())
		}
	}
	if c := b.Svc.VerifConnections(); c != baseConns+int64(len(joiners)) {
		fail("connection-counter", fmt.Sprintf("connections=%d, before the victims %d plus %d joiners", c, baseConns, len(joiners)), wit())
	}
	_ = baseNodes
	// 2. final tagged publish per channel through a fresh client (PUBACK barrier), then the observer's stream
	fin := b.Attach("fin", nil)
	fin.Connect("fin", "", nil)
	for _, ch := range chans {
		if _, err := fin.Publish(kAll+"/"+ch, []byte("fin|"+ch+"|1|"), false); err != nil {
			rec.Inconclusive("final publish: " + err.Error())
			return
		}
	}
	sent2 := map[string]int{}
	for k, v := range sent {
		sent2[k] = v
	}
	for _, ch := range chans {
		sent2["fin|"+ch] = 1
	}
	for _, jn := range joiners {
		jp, _ := jn.cl.Take()
		cnt := map[string]int{}
		for _, p := range jp {
			if strings.HasPrefix(p.Payload, "fin|") {
				cnt[p.Topic]++
			}
		}
		for _, ch := range chans {
			want := 0
			for _, f := range jn.chans {
				if strings.HasPrefix(ch, f) {
					want = 1
				}
			}
			if cnt[ch] != want {
				fail("other-connection-disturbed", fmt.Sprintf("joiner %s (subscribed to %v while the victims were ending) received the final message on %s %d times, expected %d", jn.cl.Name, jn.chans, ch, cnt[ch], want), wit())
			}
		}
		rec.Inc("joiners_checked")
	}
	pubs, err := obs.Take()
	if err != nil {
		fail("observer-stream", err.Error(), wit())
		return
	}
	got := map[string][]int{}
	wills := map[string]int{}
	for _, p := range pubs {
		if strings.HasPrefix(p.Topic, "w/") {
			wills[p.Topic+"="+p.Payload]++
			continue
		}
		f := strings.SplitN(p.Payload, "|", 4)
		if len(f) != 4 || f[1] != p.Topic {
			fail("payload-or-topic-corrupted", fmt.Sprintf("observer: topic %q payload %.60q", p.Topic, p.Payload), wit())
			continue
		}
		k, _ := strconv.Atoi(f[2])
		got[f[0]+"|"+f[1]] = append(got[f[0]+"|"+f[1]], k)
	}
	for k, n := range sent2 {
		seqs := got[k]
		ok := len(seqs) == n
		for i := 0; ok && i < len(seqs); i++ {
			ok = seqs[i] == i+1
		}
		rec.Inc("observer_sequences_checked")
		if !ok {
			fail("other-connection-disturbed", fmt.Sprintf("stable observer: %s sent 1..%d, received %d messages (%s)", k, n, len(seqs), firstBreak(seqs)), wit())
		}
	}
	for _, v := range victims {
		k := "w/" + v.name + "/=will-" + v.name
		want := 0
		if v.will {
			want = 1
		}
		if wills[k] != want {
			kind := "will-missing"
			if wills[k] > want {
				kind = "will-extra"
			}
			fail(kind, fmt.Sprintf("will of %s (ending %s) delivered %d times, expected %d", v.name, v.ending, wills[k], want), wit())
		}
		delete(wills, k)
		rec.Inc("wills_checked")
	}
	if len(wills) > 0 {
		fail("will-extra", fmt.Sprintf("unexpected will deliveries: %v", wills), wit())
	}
	// 3. presence stream per victim connection: balanced, ending unsubscribed
	if err := b.PresenceBarrier(helper, kAll, 2); err != nil {
		rec.Inconclusive("barrier: " + err.Error())
		return
	}
	watcher.DrainInto()
	notes, _ := watcher.Take()
	state := map[string]bool{}
	seenSub := 0
	for _, p := range notes {
		var nt struct {
			Event   string `json:"event"`
			Channel string `json:"channel"`
			Who     struct {
				ID string `json:"id"`
			} `json:"who"`
		}
		if p.Topic != "emitter/presence/" || json.Unmarshal([]byte(p.Payload), &nt) != nil || persistent[nt.Who.ID] {
			continue
		}
		k := nt.Who.ID + " " + nt.Channel
		switch nt.Event {
		case "subscribe":
			if state[k] {
				fail("presence-notifications", "two subscribe notifications in a row for "+k, wit())
			}
			state[k] = true
			seenSub++
		case "unsubscribe":
			if !state[k] {
				fail("presence-notifications", "unsubscribe without subscribe for "+k, wit())
			}
			state[k] = false
		}
	}
	var left []string
	for k, on := range state {
		if on {
			left = append(left, k)
		}
	}
	sort.Strings(left)
	if len(left) > 0 {
		fail("presence-notifications", fmt.Sprintf("no unsubscribe notification after the connection ended for %v", left), wit())
	}
	wantSubs := 0
	for _, v := range victims {
		for _, c := range v.channels {
			if strings.HasPrefix(c, "a/") {
				wantSubs++
			}
		}
	}
	if seenSub != wantSubs {
		fail("presence-notifications", fmt.Sprintf("watcher of a/ saw %d subscribe notifications of victims, expected %d", seenSub, wantSubs), wit())
	}
	rec.Add("presence_notifications_checked", int64(len(notes)))
	rec.Add("victims_ended", int64(len(victims)))
	rec.Add("victims_ended_during_traffic", int64(endedDuringTraffic))
	fp := []interface{}{nv, npub}
	for _, v := range victims {
		fp = append(fp, v.ending, v.after, v.rate, len(v.raw)/64)
	}
	rec.Case(vk.Hash(fp...), endedDuringTraffic > 0)
	if rec.WantSample() {
		rec.Sample(wit())
	}
}

func victimServers(vs []*liveVictim) (out []*fakenet.Conn) {
	for _, v := range vs {
		out = append(out, v.sv)
	}
	return
}

func contains(s []string, x string) bool {
	for _, y := range s {
		if y == x {
			return true
		}
	}
	return false
}

// liveHandshakeDone: the SUBACK (and the reply to the link request, if one was sent) is in the victim's stream, so the
// set of subscriptions the victim holds is determined before the traffic starts.
func liveHandshakeDone(raw []byte, link bool) bool {
	pk, _, _ := mqttref.Split(raw)
	suback, linked := false, !link
	for _, p := range pk {
		if len(p) == 0 {
			continue
		}
		switch p[0] >> 4 {
		case 9:
			suback = true
		case 3:
			if cp, err := mqttref.Decode(p); err == nil {
				if pp, ok := cp.(*packets.PublishPacket); ok && pp.TopicName == "emitter/link/" {
					linked = true
				}
			}
		}
	}
	return suback && linked
}

func liveDiff(got, want map[string]bool) string {
	var extra, missing []string
	for k := range got {
		if !want[k] {
			extra = append(extra, k)
		}
	}
	for k := range want {
		if !got[k] {
			missing = append(missing, k)
		}
	}
	if len(extra) == 0 && len(missing) == 0 {
		return ""
	}
	sort.Strings(extra)
	sort.Strings(missing)
	return fmt.Sprintf("left behind %v, missing %v", extra, missing)
}

var _ net.Conn = (*fakenet.Conn)(nil)
