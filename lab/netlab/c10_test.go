//go:build verif

// C10 — concurrent delivery keeps packet framing and per-publisher order (DESIGN §5 C10).
// Real broker; stable subscribers behind the real listener.Conn (flush rates 1,3,60,1000) or the
// real WebSocket transport; concurrent publishers with per-(publisher,channel) sequence numbers;
// churn clients; logical end barrier (last PUBACK read + Flush returned); the captured byte stream
// of every subscriber is split and decoded by the independent MQTT side.
package netlab

import (
	"encoding/binary"
	"fmt"
	"io"
	"net"
	"runtime"
	"strconv"
	"strings"
	"sync"
	"sync/atomic"
	"testing"
	"time"

	"github.com/eclipse/paho.mqtt.golang/packets"
	"github.com/emitter-io/emitter/internal/network/listener"
	"github.com/emitter-io/emitter/internal/network/websocket"
	"github.com/emitter-io/emitter/verif/lab/brokerlab"
	"github.com/emitter-io/emitter/verif/lab/fakenet"
	"github.com/emitter-io/emitter/verif/lab/mqttref"
	"github.com/emitter-io/emitter/verif/lab/vk"
)

// streamFrames carries WebSocket-like messages over a byte stream: 1 byte type, 4 bytes length.
type streamFrames struct {
	c   net.Conn
	cur io.Reader
}

func (s *streamFrames) NextReader() (int, io.Reader, error) {
	var h [5]byte
	if _, err := io.ReadFull(s.c, h[:]); err != nil {
		return 0, nil, err
	}
	n := binary.BigEndian.Uint32(h[1:])
	return int(h[0]), io.LimitReader(s.c, int64(n)), nil
}

type frameWriter struct {
	s   *streamFrames
	t   int
	buf []byte
}

func (w *frameWriter) Write(p []byte) (int, error) { w.buf = append(w.buf, p...); return len(p), nil }
func (w *frameWriter) Close() error {
	out := make([]byte, 5+len(w.buf))
	out[0] = byte(w.t)
	binary.BigEndian.PutUint32(out[1:], uint32(len(w.buf)))
	copy(out[5:], w.buf)
	_, err := w.s.c.Write(out) // one atomic write per message, like a frame on a socket
	return err
}
func (s *streamFrames) NextWriter(t int) (io.WriteCloser, error)  { return &frameWriter{s: s, t: t}, nil }
func (s *streamFrames) Close() error                              { return s.c.Close() }
func (s *streamFrames) LocalAddr() net.Addr                       { return s.c.LocalAddr() }
func (s *streamFrames) RemoteAddr() net.Addr                      { return s.c.RemoteAddr() }
func (s *streamFrames) SetReadDeadline(t time.Time) error         { return s.c.SetReadDeadline(t) }
func (s *streamFrames) SetWriteDeadline(t time.Time) error        { return s.c.SetWriteDeadline(t) }

func frameUp(r *vk.Rand, b []byte) []byte {
	var out []byte
	for len(b) > 0 {
		k := 1 + r.Intn(len(b))
		h := make([]byte, 5)
		h[0] = 2
		binary.BigEndian.PutUint32(h[1:], uint32(k))
		out = append(out, h...)
		out = append(out, b[:k]...)
		b = b[k:]
	}
	return out
}

func unframe(b []byte) ([]byte, error) {
	var out []byte
	for len(b) > 0 {
		if len(b) < 5 {
			return out, fmt.Errorf("truncated frame header (%d bytes left)", len(b))
		}
		if b[0] != 2 {
			return out, fmt.Errorf("frame type %d, expected binary", b[0])
		}
		n := int(binary.BigEndian.Uint32(b[1:5]))
		if len(b) < 5+n {
			return out, fmt.Errorf("truncated frame (%d of %d bytes)", len(b)-5, n)
		}
		out = append(out, b[5:5+n]...)
		b = b[5+n:]
	}
	return out, nil
}

type c10Sub struct {
	name     string
	cl       *fakenet.Conn
	lc       *listener.Conn
	ws       bool
	rate     int
	channels []string
	raw      []byte
}

func TestC10(t *testing.T) {
	rec := vk.New("C10", "conc")
	defer rec.Finish(t)
	rec.Rule("case = one concurrent run on a real broker: 2-6 stable subscribers (behind the real listener.Conn at flush rate 1/3/60/1000 with seeded yields in the socket's Write, or behind the real WebSocket transport), 2-8 publishers each sending QoS-1 messages '<pub>-<chan>-<seq>' to 1-3 channels with up to 8 in flight, " +
		"and churn clients subscribing/unsubscribing/pinging; end barrier = every publisher has read its last PUBACK and Flush() has returned on every subscriber; the captured stream of every subscriber must split into complete well-formed packets with nothing left and carry, per (publisher, channel), exactly 1..n in order; " +
		"non-trivial = runs with >=2 publishers sharing a subscriber that is behind a queueing path (rate 1 or 3) or the WebSocket transport; distinct = hash of (configuration, interleaving fingerprint of the first subscriber's arrivals)")
	n := vk.N(12, 96)
	reps := vk.N(2, 5)
	for ci := 0; ci < n; ci++ {
		if !vk.Mine(ci) {
			continue
		}
		for rep := 0; rep < reps; rep++ {
			runC10(rec, ci, rep)
		}
	}
}

func runC10(rec *vk.Rec, ci, rep int) {
	r := vk.NewRand(vk.Seed(), "C10", ci)
	// a quarter of the runs limit the per-connection read rate to a few packets per second, so that the publishers are
	// throttled by the broker (the limiter makes the connection goroutine pause; nothing may be lost for that)
	readRate := 0
	if ci%4 == 3 {
		readRate = []int{20, 50, 200}[r.Intn(3)]
	}
	b, err := brokerlab.NewBroker(brokerlab.Opts{ReadRate: readRate})
	if err != nil {
		rec.Inconclusive(err.Error())
		return
	}
	defer b.Close()
	key := b.MustKey("#/", brokerlab.Perms("rw"))
	chans := []string{"a/", "a/b/", "c/"}
	nsub := r.Range(2, 6)
	npub := r.Range(2, 8)
	perPub := vk.N(250, 1200)
	if readRate > 0 {
		perPub = readRate * 2
		if perPub > 150 {
			perPub = 150
		}
		rec.Inc("runs_with_read_rate_limit")
	}
	// every fourth run: a large audience (the fan-out of one publish to 64..256 subscribers, sizes around multiples of 64 and
	// of other round numbers), most of them on the direct path
	large := ci%4 == 1
	if large && rep > 0 {
		return // one repeat of the large runs is enough (they cost the most)
	}
	if large {
		nsub = []int{128, 192, 256, 128, 64, 129, 100, 192}[r.Intn(8)]
		npub = r.Range(2, 3)
		perPub = vk.N(150, 300)
		rec.Inc("runs_with_large_audience")
	}
	var subs []*c10Sub
	queueing := false
	var hookCtr uint32
	for i := 0; i < nsub; i++ {
		s := &c10Sub{name: fmt.Sprintf("s%d", i)}
		cl, sv := fakenet.Pair()
		s.cl = cl
		every := uint32(r.Range(3, 40))
		sv.SetWriteHook(func(n int) {
			if c := atomic.AddUint32(&hookCtr, 1); c%every == 0 {
				if c%(every*7) == 0 {
					time.Sleep(50 * time.Microsecond)
				} else {
					runtime.Gosched()
				}
			}
		})
		kind := r.Intn(5)
		if large && i >= 4 {
			kind = 3 // listener.Conn at rate 1000: the direct path
		}
		var handshake []byte
		nch := r.Range(1, len(chans))
		if large {
			nch = len(chans)
		}
		s.channels = append([]string(nil), chans[:nch]...)
		handshake = append(handshake, mqttref.Connect(s.name, "", nil)...)
		var topics []string
		for _, c := range s.channels {
			topics = append(topics, key+"/"+c)
		}
		handshake = append(handshake, mqttref.Subscribe(7, topics...)...)
		if kind == 4 {
			s.ws = true
			queueing = true
			b.Svc.VerifAttach(websocket.VerifNewTransport(&streamFrames{c: sv}))
			cl.Write(frameUp(r, handshake))
		} else {
			s.rate = []int{1, 3, 60, 1000}[kind]
			if s.rate <= 3 {
				queueing = true
			}
			s.lc = listener.VerifNewConn(sv, s.rate)
			b.Svc.VerifAttach(s.lc)
			cl.Write(handshake)
		}
		subs = append(subs, s)
	}
	// wait until every subscriber's SUBACK is in its stream (subscription stable before the first publish)
	for _, s := range subs {
		deadline := time.Now().Add(120 * time.Second)
		for {
			if s.lc != nil {
				s.lc.Flush()
			}
			raw := s.cl.TakeAll()
			s.stash(raw)
			if s.hasSuback() {
				break
			}
			if time.Now().After(deadline) {
				rec.Inconclusive("subscriber handshake watchdog")
				return
			}
			s.cl.WaitData(50 * time.Millisecond)
		}
	}
	// publishers
	var wg sync.WaitGroup
	type pubPlan struct {
		name  string
		chans []string
	}
	var plans []pubPlan
	sent := map[string]int{} // pub|chan -> n
	var sentMu sync.Mutex
	var perr, dropped atomic.Value
	for p := 0; p < npub; p++ {
		pl := pubPlan{name: fmt.Sprintf("p%d", p)}
		k := r.Range(1, 3)
		for _, i := range r.Perm(len(chans))[:k] {
			pl.chans = append(pl.chans, chans[i])
		}
		plans = append(plans, pl)
		pr := vk.NewRand(vk.Seed(), fmt.Sprintf("C10-p%d", p), ci)
		wg.Add(1)
		go func(pl pubPlan, pr *vk.Rand) {
			defer wg.Done()
			c := b.Attach(pl.name, nil)
			defer c.Abort()
			if rc, err := c.Connect(pl.name, "", nil); err != nil || rc != 0 {
				perr.Store(fmt.Sprintf("publisher connect: %v", err))
				return
			}
			seq := map[string]int{}
			inflight := 0
			id := uint16(0)
			acked := 0
			total := 0
			readAcks := func(min int) bool {
				for acked < min {
					raw := c.C.TakeAll()
					pk, rest, err := mqttref.Split(append(c.Pending, raw...))
					c.Pending = append([]byte(nil), rest...)
					if err != nil {
						perr.Store("publisher stream: " + err.Error())
						return false
					}
					for _, p := range pk {
						if p[0]>>4 == 4 {
							acked++
						}
					}
					if acked >= min {
						break
					}
					if _, eof, to := c.C.WaitData(60 * time.Second); eof || to {
						perr.Store("publisher: watchdog waiting for PUBACK")
						return false
					}
				}
				return true
			}
			for i := 0; i < perPub; i++ {
				ch := pl.chans[pr.Intn(len(pl.chans))]
				seq[ch]++
				id++
				if id == 0 {
					id = 1
				}
				payload := fmt.Sprintf("%s|%s|%d|%s", pl.name, ch, seq[ch], strings.Repeat("x", pr.Intn(40)))
				switch {
				case pr.Chance(2):
					payload += strings.Repeat("y", pr.Range(500, 4000))
				case pr.Chance(1): // large messages: an encoder that splits them over several writes would interleave
					payload += strings.Repeat("z", pr.Range(16000, 40000))
				case pr.Chance(25): // sweep the small remaining lengths (127/128 boundary of the length encoding)
					payload += strings.Repeat("w", (i*7+len(pl.name))%220)
				}
				c.Send(mqttref.Publish(id, key+"/"+ch, []byte(payload), 1, false))
				total++
				inflight = total - acked
				if readRate > 0 {
					continue // throttled runs: no window, the end barrier below decides
				}
				if inflight >= 8 || pr.Chance(10) {
					if !readAcks(total - pr.Intn(4)) {
						return
					}
				}
			}
			if readRate > 0 {
				// End barrier that does not depend on every PUBACK arriving: the connection goroutine serves packets in order
				// and writes the PUBACK of a publish while it handles it, so once the PINGRESP of a PINGREQ sent after the last
				// publish has been read, every publish has been handled - one that is still unacknowledged then was dropped.
				// (The pause lets the read limiter refill; it decides nothing.)
				time.Sleep(1300 * time.Millisecond)
				c.Send(mqttref.Pingreq())
				pong := false
				for !pong {
					raw := c.C.TakeAll()
					pk, rest, err := mqttref.Split(append(c.Pending, raw...))
					c.Pending = append([]byte(nil), rest...)
					if err != nil {
						perr.Store("publisher stream: " + err.Error())
						return
					}
					for _, p := range pk {
						switch p[0] >> 4 {
						case 4:
							acked++
						case 13:
							pong = true
						}
					}
					if pong {
						break
					}
					if _, eof, to := c.C.WaitData(120 * time.Second); eof || to {
						perr.Store("publisher: watchdog waiting for PINGRESP")
						return
					}
				}
				if acked < total {
					dropped.Store(fmt.Sprintf("publisher %s (read rate limited to %d packets/s): %d QoS-1 publishes sent, the PINGRESP of a PINGREQ sent after the last one has been read, but only %d PUBACKs arrived: %d publishes were dropped by the broker", pl.name, readRate, total, acked, total-acked))
				}
			} else if !readAcks(total) {
				return
			}
			sentMu.Lock()
			for ch, n := range seq {
				sent[pl.name+"|"+ch] = n
			}
			sentMu.Unlock()
		}(pl, pr)
	}
	// churn
	stop := make(chan struct{})
	var cwg sync.WaitGroup
	for k := 0; k < 2; k++ {
		cr := vk.NewRand(vk.Seed(), fmt.Sprintf("C10-churn%d", k), ci)
		cwg.Add(1)
		go func(k int, cr *vk.Rand) {
			defer cwg.Done()
			c := b.Attach(fmt.Sprintf("churn%d", k), nil)
			defer c.Abort()
			c.Connect(c.Name, "", nil)
			for i := 0; ; i++ {
				select {
				case <-stop:
					return
				default:
				}
				ch := fmt.Sprintf("%s/z/q%d/%d/", key, k, cr.Intn(3))
				switch cr.Intn(3) {
				case 0:
					c.Subscribe(ch)
				case 1:
					c.Unsubscribe(ch)
				default:
					c.Ping()
				}
				c.Take()
			}
		}(k, cr)
	}
	wg.Wait()
	close(stop)
	cwg.Wait()
	if d := dropped.Load(); d != nil {
		rec.Violation(ci, "publish-dropped/read-rate-limited", d.(string), map[string]interface{}{"read_rate": readRate, "publishers": npub})
		return
	}
	if e := perr.Load(); e != nil {
		rec.Inconclusive(e.(string))
		return
	}
	// end barrier: all PUBACKs read (above); Flush on every subscriber has returned
	for _, s := range subs {
		if s.lc != nil {
			if _, err := s.lc.Flush(); err != nil {
				rec.Inconclusive("flush: " + err.Error())
				return
			}
		}
	}
	total := 0
	fp := []interface{}{nsub, npub}
	for si, s := range subs {
		s.stash(s.cl.TakeAll())
		stream := s.raw
		if s.ws {
			var err error
			if stream, err = unframe(s.raw); err != nil {
				rec.Violation(ci, "websocket-framing-broken", fmt.Sprintf("subscriber %s: %v", s.name, err), s.witness(plans))
				continue
			}
		}
		pk, rest, err := mqttref.Split(stream)
		if err != nil || len(rest) != 0 {
			rec.Violation(ci, "stream-not-well-formed-packets/"+s.path(), fmt.Sprintf("subscriber %s (%s): split error %v, %d bytes left over after %d packets", s.name, s.path(), err, len(rest), len(pk)), s.witness(plans))
			continue
		}
		got := map[string][]int{}
		bad := false
		for _, p := range pk {
			cp, err := mqttref.Decode(p)
			if err != nil {
				rec.Violation(ci, "undecodable-packet/"+s.path(), fmt.Sprintf("subscriber %s (%s): %v", s.name, s.path(), err), s.witness(plans))
				bad = true
				break
			}
			pp, ok := cp.(*packets.PublishPacket)
			if !ok {
				continue
			}
			f := strings.SplitN(string(pp.Payload), "|", 4)
			if len(f) != 4 || f[1] != pp.TopicName {
				rec.Violation(ci, "payload-or-topic-corrupted/"+s.path(), fmt.Sprintf("subscriber %s: topic %q payload %.60q", s.name, pp.TopicName, pp.Payload), s.witness(plans))
				bad = true
				break
			}
			n, _ := strconv.Atoi(f[2])
			got[f[0]+"|"+f[1]] = append(got[f[0]+"|"+f[1]], n)
			total++
			if si == 0 && len(fp) < 400 {
				fp = append(fp, f[0])
			}
		}
		if bad {
			continue
		}
		for k, n := range sent {
			ch := strings.SplitN(k, "|", 2)[1]
			subscribed := false
			for _, c := range s.channels {
				if strings.HasPrefix(ch, c) {
					subscribed = true
				}
			}
			seqs := got[k]
			if !subscribed {
				if len(seqs) != 0 {
					rec.Violation(ci, "delivered-without-subscription", fmt.Sprintf("subscriber %s got %d messages of %s", s.name, len(seqs), k), s.witness(plans))
				}
				continue
			}
			rec.Inc("sequences_checked")
			okk := len(seqs) == n
			for i := 0; okk && i < len(seqs); i++ {
				if seqs[i] != i+1 {
					okk = false
				}
			}
			if !okk {
				kind := "lost"
				switch {
				case len(seqs) > n:
					kind = "duplicated"
				case len(seqs) == n:
					kind = "reordered"
				}
				rec.Violation(ci, "per-publisher-order/"+kind+"/"+s.path(), fmt.Sprintf("subscriber %s (%s): publisher|channel %s sent 1..%d, received %d messages: %s", s.name, s.path(), k, n, len(seqs), firstBreak(seqs)), s.witness(plans))
			}
		}
	}
	rec.Add("messages_delivered_and_decoded", int64(total))
	shared := npub >= 2
	rec.Case(vk.Hash(fp...), shared && queueing)
	if rec.WantSample() {
		var ss []string
		for _, s := range subs {
			ss = append(ss, s.name+":"+s.path()+":"+strings.Join(s.channels, ","))
		}
		rec.Sample(map[string]interface{}{"case": ci, "repeat": rep, "subscribers": ss, "publishers": npub, "messages_per_publisher": perPub, "delivered": total})
	}
}

func firstBreak(s []int) string {
	for i := range s {
		if s[i] != i+1 {
			lo := i - 2
			if lo < 0 {
				lo = 0
			}
			hi := i + 4
			if hi > len(s) {
				hi = len(s)
			}
			return fmt.Sprintf("position %d: …%v…", i, s[lo:hi])
		}
	}
	return fmt.Sprintf("prefix in order, %d received", len(s))
}

func (s *c10Sub) path() string {
	if s.ws {
		return "websocket"
	}
	return fmt.Sprintf("listener-rate-%d", s.rate)
}

func (s *c10Sub) witness(plans interface{}) map[string]interface{} {
	return map[string]interface{}{"subscriber": s.name, "path": s.path(), "channels": s.channels, "publishers": fmt.Sprintf("%+v", plans)}
}

func (s *c10Sub) stash(b []byte) { s.rawAppend(b) }

func (s *c10Sub) rawAppend(b []byte) { s.raw = append(s.raw, b...) }

func (s *c10Sub) hasSuback() bool {
	stream := s.raw
	if s.ws {
		st, err := unframe(s.raw)
		if err != nil {
			return false
		}
		stream = st
	}
	pk, _, _ := mqttref.Split(stream)
	for _, p := range pk {
		if p[0]>>4 == 9 {
			return true
		}
	}
	return false
}
