//go:build verif

// C17 — transport adapters deliver the byte stream unchanged (DESIGN §5 C17).
package netlab

import (
	"bytes"
	"errors"
	"fmt"
	"io"
	"net"
	"testing"
	"time"

	"github.com/emitter-io/emitter/internal/network/listener"
	"github.com/emitter-io/emitter/internal/network/websocket"
	"github.com/emitter-io/emitter/verif/lab/fakenet"
	"github.com/emitter-io/emitter/verif/lab/vk"
)

// pattern: a byte string in which every 4-byte word carries a running counter, so a shift, drop
// or repeat is localised.
func pattern(r *vk.Rand, n int, head []byte) []byte {
	b := make([]byte, n)
	salt := byte(r.U32())
	for i := range b {
		switch i % 4 {
		case 0:
			b[i] = byte(i >> 10)
		case 1:
			b[i] = byte(i >> 2)
		case 2:
			b[i] = byte(i) ^ salt
		default:
			b[i] = byte(r.U32())
		}
	}
	copy(b, head)
	return b
}

func firstDiff(a, b []byte) string {
	n := len(a)
	if len(b) < n {
		n = len(b)
	}
	for i := 0; i < n; i++ {
		if a[i] != b[i] {
			return fmt.Sprintf("first difference at byte %d (got %#02x want %#02x), lengths got=%d want=%d", i, a[i], b[i], len(a), len(b))
		}
	}
	return fmt.Sprintf("common prefix of %d bytes, lengths got=%d want=%d", n, len(a), len(b))
}

type matcherSpec struct {
	name string
	m    listener.Matcher
}

func matcherPool() []matcherSpec {
	return []matcherSpec{
		{"http", listener.MatchHTTP()},
		{"prefix(MQ)", listener.MatchPrefix("MQ")},
		{"prefix(\\x10)", listener.MatchPrefix("\x10")},
		{"prefix(long)", listener.MatchPrefix("a-very-long-prefix-that-is-longer-than-most-streams-0123456789")},
		{"prefix(GET,x)", listener.MatchPrefix("GET /", "x")},
		{"any", listener.MatchAny()},
	}
}

func TestC17(t *testing.T) {
	rec := vk.New("C17", "bytes")
	defer rec.Finish(t)
	rec.Rule("case = one transfer through a real adapter: (read) a counter-patterned stream fed to the fake socket under listener.Conn in a seeded partition of socket reads, sniffed by a seeded matcher sequence exactly as Listener.serve does, then read back with seeded buffer sizes; " +
		"(ws-read) the stream split into binary/text messages with empty messages and control frames in between, each message delivered by a fragmenting reader; (write) 1-200 writes of 1 B-64 KiB through listener.Conn at flush rates 1,3,60,1000 with seeded pauses (a few cross the 1 s timer flush) then Flush; " +
		"(ws-write) writes through the WebSocket adapter; the bytes out are compared with the bytes in; non-trivial = transfers of >=2 chunks in which at least one matcher peeked (read), a message boundary fell inside a read (ws), or at least one write was queued (write); distinct = hash of the partition and matcher/rate choice")
	n := vk.N(1500, 24000)
	for ci := 0; ci < n; ci++ {
		if !vk.Mine(ci) {
			continue
		}
		t0 := time.Now()
		switch ci % 4 {
		case 0:
			c17Read(rec, ci)
		case 1:
			c17WSRead(rec, ci)
		case 2:
			c17Write(rec, ci)
		case 3:
			c17WSWrite(rec, ci)
		}
		rec.Add(fmt.Sprintf("ms_kind%d", ci%4), time.Since(t0).Milliseconds())
	}
}

func c17Read(rec *vk.Rec, ci int) {
	r := vk.NewRand(vk.Seed(), "C17read", ci)
	heads := [][]byte{nil, []byte("GET / HTTP/1.1\r\n"), []byte("MQ"), []byte("\x10\x0c\x00\x04MQTT"), []byte("POST /keygen"), []byte("x"), []byte("a-very-long-prefix-that-is-longer-than-most-streams-0123456789")}
	size := []int{0, 1, 2, 3, 7, 16, 100, 1000, 5000, 70000}[r.Intn(10)]
	if r.Chance(40) {
		size = r.Range(0, 300)
	}
	data := pattern(r, size, nil)
	if h := heads[r.Intn(len(heads))]; len(h) <= size {
		copy(data, h)
	}
	cl, sv := fakenet.Pair()
	var chunks []int
	maxChunk := []int{1, 2, 3, 8, 64, 1500, 100000}[r.Intn(7)]
	sv.SetReadChunker(func(avail int) int {
		k := 1 + r.Intn(maxChunk)
		chunks = append(chunks, k)
		return k
	})
	cl.Write(data)
	eofTerminated := r.Chance(60)
	pool := matcherPool()
	var ms []listener.Matcher
	var names []string
	for k := r.Intn(4); k > 0; k-- {
		m := pool[r.Intn(len(pool))]
		ms = append(ms, m.m)
		names = append(names, m.name)
	}
	ms = append(ms, listener.MatchAny())
	names = append(names, "any")
	// an open stream must be long enough for every matcher's ReadFull not to block
	if !eofTerminated && size < 80 {
		eofTerminated = true
	}
	tlsLike := false
	if eofTerminated {
		cl.CloseWrite()
		if r.Chance(35) { // a TLS-like source: the last bytes and the end of the stream arrive in one Read
			sv.EOFWithData()
			tlsLike = true
		}
	}
	conn := listener.VerifNewConn(sv, 60)
	defer conn.Close()
	idx := conn.VerifMatch(ms...)
	if idx < 0 {
		rec.Violation(ci, "match-any-did-not-match", "MatchAny returned false", nil)
		return
	}
	var got []byte
	bufSize := []int{1, 2, 5, 64, 512, 4096, 65536}[r.Intn(7)]
	buf := make([]byte, bufSize)
	empties := 0
	if !eofTerminated {
		// the stream stayed open while the matchers sniffed; it is half-closed now, so that the reader meets EOF after the
		// last byte and a stream that lost bytes ends short instead of blocking the monitor for ever
		cl.CloseWrite()
	}
	for {
		k, err := conn.Read(buf[:1+r.Intn(bufSize)])
		got = append(got, buf[:k]...)
		if err != nil {
			if err != io.EOF {
				rec.Violation(ci, "read-error", err.Error(), nil)
			}
			break
		}
		if k == 0 {
			if empties++; empties > 1000 {
				rec.Violation(ci, "read-no-progress", "1000 empty reads", nil)
				return
			}
		}
	}
	rec.Add("bytes_read_side", int64(len(data)))
	if tlsLike {
		rec.Inc("read_cases_data_with_eof")
	}
	rec.Case(vk.Hash("read", size, maxChunk, fmt.Sprint(names), bufSize, eofTerminated, tlsLike, fmt.Sprint(chunks[:min(len(chunks), 20)])), len(chunks) >= 2 && len(names) >= 2)
	if !bytes.Equal(got, data) {
		rec.Violation(ci, "sniffer-altered-stream", fmt.Sprintf("matchers %v (matched #%d), socket reads of up to %d bytes, reader buffer %d, eof=%v, last bytes together with EOF=%v: %s", names, idx, maxChunk, bufSize, eofTerminated, tlsLike, firstDiff(got, data)),
			map[string]interface{}{"matchers": names, "size": size, "max_chunk": maxChunk, "reader_buffer": bufSize, "eof_terminated": eofTerminated})
	}
	if rec.WantSample() && len(names) > 1 {
		rec.Sample(map[string]interface{}{"kind": "read", "size": size, "matchers": names, "max_socket_read": maxChunk, "reader_buffer": bufSize, "eof_terminated": eofTerminated})
	}
}

// ---- websocket ------------------------------------------------------------------------------

type wsFrame struct {
	typ     int
	payload []byte
}

type fragReader struct {
	b   []byte
	max int
	r   *vk.Rand
}

func (f *fragReader) Read(p []byte) (int, error) {
	if len(f.b) == 0 {
		return 0, io.EOF
	}
	k := 1 + f.r.Intn(f.max)
	if k > len(f.b) {
		k = len(f.b)
	}
	if k > len(p) {
		k = len(p)
	}
	copy(p, f.b[:k])
	f.b = f.b[k:]
	return k, nil
}

type frameConn struct {
	in   []wsFrame
	r    *vk.Rand
	max  int
	out  [][]byte
	cur  *bytes.Buffer
	done bool
}

func (f *frameConn) NextReader() (int, io.Reader, error) {
	if len(f.in) == 0 {
		return 0, nil, errors.New("websocket: close 1000 (normal)")
	}
	fr := f.in[0]
	f.in = f.in[1:]
	return fr.typ, &fragReader{b: fr.payload, max: f.max, r: f.r}, nil
}

type wsWriter struct{ f *frameConn }

func (w wsWriter) Write(p []byte) (int, error) { return w.f.cur.Write(p) }
func (w wsWriter) Close() error {
	w.f.out = append(w.f.out, append([]byte(nil), w.f.cur.Bytes()...))
	w.f.cur = nil
	return nil
}
func (f *frameConn) NextWriter(t int) (io.WriteCloser, error) {
	if t != 2 {
		return nil, fmt.Errorf("adapter wrote message type %d", t)
	}
	if f.cur != nil {
		return nil, errors.New("NextWriter called before the previous writer was closed")
	}
	f.cur = &bytes.Buffer{}
	return wsWriter{f}, nil
}
func (f *frameConn) Close() error                       { f.done = true; return nil }
func (f *frameConn) LocalAddr() net.Addr                { return &net.TCPAddr{} }
func (f *frameConn) RemoteAddr() net.Addr               { return &net.TCPAddr{} }
func (f *frameConn) SetReadDeadline(t time.Time) error  { return nil }
func (f *frameConn) SetWriteDeadline(t time.Time) error { return nil }

func c17WSRead(rec *vk.Rec, ci int) {
	r := vk.NewRand(vk.Seed(), "C17wsr", ci)
	size := r.Range(0, 3000)
	if r.Chance(10) {
		size = r.Range(60000, 140000)
	}
	data := pattern(r, size, nil)
	fc := &frameConn{r: r, max: []int{1, 2, 7, 100, 100000}[r.Intn(5)]}
	rest := data
	var shape []string
	for len(rest) > 0 || r.Chance(15) {
		switch x := r.Intn(10); {
		case x == 0:
			fc.in = append(fc.in, wsFrame{9, []byte("ping")})
			shape = append(shape, "ping")
		case x == 1:
			fc.in = append(fc.in, wsFrame{10, nil})
			shape = append(shape, "pong")
		case x == 2:
			fc.in = append(fc.in, wsFrame{[]int{1, 2}[r.Intn(2)], nil})
			shape = append(shape, "empty")
		default:
			k := 1 + r.Intn(1+len(rest))
			if r.Chance(50) {
				k = 1 + r.Intn(40)
			}
			if k > len(rest) {
				k = len(rest)
			}
			if k == 0 {
				continue
			}
			fc.in = append(fc.in, wsFrame{[]int{1, 2}[r.Intn(2)], rest[:k]})
			rest = rest[k:]
			shape = append(shape, fmt.Sprint(k))
		}
		if len(shape) > 5000 {
			break
		}
	}
	data = data[:len(data)-len(rest)]
	conn := websocket.VerifNewTransport(fc)
	var got []byte
	bufSize := []int{1, 3, 64, 4096, 65536}[r.Intn(5)]
	buf := make([]byte, bufSize)
	for {
		k, err := conn.Read(buf[:1+r.Intn(bufSize)])
		got = append(got, buf[:k]...)
		if err != nil {
			break
		}
	}
	rec.Add("bytes_ws_read_side", int64(len(data)))
	rec.Case(vk.Hash("wsr", size, fc.max, bufSize, fmt.Sprint(shape[:min(len(shape), 30)])), len(shape) >= 3)
	if !bytes.Equal(got, data) {
		rec.Violation(ci, "websocket-read-altered-stream", fmt.Sprintf("messages %v fragment<=%d reader buffer %d: %s", shape[:min(len(shape), 20)], fc.max, bufSize, firstDiff(got, data)),
			map[string]interface{}{"messages": shape, "fragment_max": fc.max, "reader_buffer": bufSize})
	}
	if rec.WantSample() {
		rec.Sample(map[string]interface{}{"kind": "ws-read", "size": size, "messages": shape[:min(len(shape), 12)], "fragment_max": fc.max, "reader_buffer": bufSize})
	}
}

func c17WSWrite(rec *vk.Rec, ci int) {
	r := vk.NewRand(vk.Seed(), "C17wsw", ci)
	fc := &frameConn{r: r, max: 1}
	conn := websocket.VerifNewTransport(fc)
	nw := r.Range(1, 60)
	var want [][]byte
	for i := 0; i < nw; i++ {
		sz := r.Range(0, 300)
		if r.Chance(10) {
			sz = r.Range(1000, 70000)
		}
		p := pattern(r, sz, nil)
		want = append(want, p)
		k, err := conn.Write(p)
		if err != nil || k != len(p) {
			rec.Violation(ci, "websocket-write-error", fmt.Sprintf("Write returned %d,%v for %d bytes", k, err, len(p)), nil)
			return
		}
	}
	rec.Case(vk.Hash("wsw", nw, len(want[0])), nw >= 2)
	rec.Add("ws_messages_written", int64(nw))
	if len(fc.out) != len(want) {
		rec.Violation(ci, "websocket-write-message-count", fmt.Sprintf("%d writes produced %d binary messages", len(want), len(fc.out)), nil)
		return
	}
	for i := range want {
		if !bytes.Equal(fc.out[i], want[i]) {
			rec.Violation(ci, "websocket-write-altered", fmt.Sprintf("message %d: %s", i, firstDiff(fc.out[i], want[i])), nil)
			return
		}
	}
}

// ---- write queue ----------------------------------------------------------------------------

func c17Write(rec *vk.Rec, ci int) {
	r := vk.NewRand(vk.Seed(), "C17write", ci)
	rate := []int{1, 3, 60, 1000}[r.Intn(4)]
	cl, sv := fakenet.Pair()
	sv.LogWrites()
	nw := r.Range(1, 200)
	slow := ci%200 == 2 // a few cases pause across the 1 s timer flush
	if slow {
		nw = r.Range(3, 7)
	}
	// a few cases run against a slow socket (every socket write takes 20 ms) while the writer keeps writing
	// across the 1 s timer flush: the flush is then inside socket.Write while further writes are queued
	slowSock := ci%200 == 6 || ci%200 == 106
	if slowSock {
		rate = []int{1, 3}[r.Intn(2)]
		nw = r.Range(50, 70)
		sv.SetWriteHook(func(int) { time.Sleep(20 * time.Millisecond) })
	}
	// some cases build a backlog of one to several megabytes (rate-limited connection, many large writes back to back): the
	// queue is then larger than any internal chunk a flush might work in
	backlog := ci%40 == 14 && !slow && !slowSock
	if backlog {
		rate = []int{1, 3}[r.Intn(2)]
		nw = r.Range(24, 90)
	}
	conn := listener.VerifNewConn(sv, rate)
	defer conn.Close()
	var want []byte
	queuedSeen := false
	for i := 0; i < nw; i++ {
		sz := r.Range(1, 200)
		if r.Chance(8) {
			sz = r.Range(2000, 65536)
		}
		if backlog {
			sz = r.Range(30000, 65536)
		}
		p := pattern(r, sz, []byte{byte(i), byte(i >> 8)})
		want = append(want, p...)
		k, err := conn.Write(p)
		if err != nil || k < 0 {
			rec.Violation(ci, "write-error", fmt.Sprintf("Write returned %d,%v", k, err), nil)
			return
		}
		if conn.Len() > 0 {
			queuedSeen = true
		}
		if slowSock {
			time.Sleep(time.Duration(r.Range(15, 30)) * time.Millisecond)
		} else if slow && r.Chance(40) {
			time.Sleep(time.Duration(r.Range(300, 1200)) * time.Millisecond)
		} else if r.Chance(5) {
			time.Sleep(time.Duration(r.Range(1, 3)) * time.Millisecond)
		}
	}
	if _, err := conn.Flush(); err != nil {
		rec.Violation(ci, "flush-error", err.Error(), nil)
		return
	}
	got := cl.TakeAll()
	sw := sv.Writes()
	rec.Add("conn_writes", int64(nw))
	rec.Add("socket_writes", int64(len(sw)))
	if queuedSeen {
		rec.Inc("transfers_with_queued_writes")
	}
	if slow || slowSock {
		rec.Inc("transfers_across_timer_flush")
	}
	if slowSock {
		rec.Inc("transfers_on_slow_socket")
	}
	if backlog {
		rec.Inc("transfers_with_megabyte_backlog")
	}
	rec.Case(vk.Hash("write", rate, nw, len(want), slow), queuedSeen && nw >= 2)
	if !bytes.Equal(got, want) {
		rec.Violation(ci, "write-queue-altered-stream", fmt.Sprintf("flush rate %d, %d writes (%d socket writes), slow=%v: %s", rate, nw, len(sw), slow, firstDiff(got, want)),
			map[string]interface{}{"flush_rate": rate, "writes": nw, "socket_writes": len(sw)})
	}
	if rec.WantSample() && queuedSeen {
		rec.Sample(map[string]interface{}{"kind": "write", "flush_rate": rate, "writes": nw, "socket_writes": len(sw), "bytes": len(want), "across_timer": slow})
	}
}
