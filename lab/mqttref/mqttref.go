// Package mqttref is the independent MQTT 3.1.1 side of the harnesses: a strict stream splitter
// written from the specification and paho's packets codec for all 14 packet types, so that the
// broker's own codec is never its own judge.
package mqttref

import (
	"bytes"
	"errors"
	"fmt"

	"github.com/eclipse/paho.mqtt.golang/packets"
)

// ErrIncomplete means the buffer ends inside a packet.
var ErrIncomplete = errors.New("mqttref: incomplete packet")

// Next returns the length of the first packet in buf (fixed header + remaining length + body).
func Next(buf []byte) (int, error) {
	if len(buf) < 2 {
		return 0, ErrIncomplete
	}
	t := buf[0] >> 4
	if t == 0 || t == 15 {
		return 0, fmt.Errorf("mqttref: reserved packet type %d", t)
	}
	rl, mult := 0, 1
	for i := 1; ; i++ {
		if i > 4 {
			return 0, errors.New("mqttref: remaining length longer than 4 bytes")
		}
		if i >= len(buf) {
			return 0, ErrIncomplete
		}
		b := buf[i]
		rl += int(b&0x7f) * mult
		mult *= 128
		if b&0x80 == 0 {
			total := i + 1 + rl
			if total > len(buf) {
				return 0, ErrIncomplete
			}
			return total, nil
		}
	}
}

// Split cuts buf into complete packets; rest is the unconsumed tail (an incomplete packet).
func Split(buf []byte) (pkts [][]byte, rest []byte, err error) {
	for len(buf) > 0 {
		n, e := Next(buf)
		if e == ErrIncomplete {
			return pkts, buf, nil
		}
		if e != nil {
			return pkts, buf, e
		}
		pkts = append(pkts, buf[:n])
		buf = buf[n:]
	}
	return pkts, nil, nil
}

// Decode decodes exactly one packet with paho; trailing or missing bytes are an error.
func Decode(pkt []byte) (packets.ControlPacket, error) {
	r := bytes.NewReader(pkt)
	cp, err := packets.ReadPacket(r)
	if err != nil {
		return nil, err
	}
	if r.Len() != 0 {
		return nil, fmt.Errorf("mqttref: %d trailing bytes", r.Len())
	}
	return cp, nil
}

// Encode serialises a packet with paho.
func Encode(cp packets.ControlPacket) []byte {
	var b bytes.Buffer
	if err := cp.Write(&b); err != nil {
		panic(err)
	}
	return b.Bytes()
}

// Will describes a last will.
type Will struct {
	Topic   string
	Payload []byte
	Retain  bool
	Qos     byte
}

func Connect(clientID, username string, will *Will) []byte {
	p := packets.NewControlPacket(packets.Connect).(*packets.ConnectPacket)
	p.ProtocolName = "MQTT"
	p.ProtocolVersion = 4
	p.CleanSession = true
	p.ClientIdentifier = clientID
	p.Keepalive = 60
	if username != "" {
		p.UsernameFlag = true
		p.Username = username
	}
	if will != nil {
		p.WillFlag = true
		p.WillTopic = will.Topic
		p.WillMessage = will.Payload
		p.WillRetain = will.Retain
		p.WillQos = will.Qos
	}
	return Encode(p)
}

func Subscribe(id uint16, topics ...string) []byte {
	p := packets.NewControlPacket(packets.Subscribe).(*packets.SubscribePacket)
	p.MessageID = id
	p.Topics = topics
	p.Qoss = make([]byte, len(topics))
	return Encode(p)
}

func Unsubscribe(id uint16, topics ...string) []byte {
	p := packets.NewControlPacket(packets.Unsubscribe).(*packets.UnsubscribePacket)
	p.MessageID = id
	p.Topics = topics
	return Encode(p)
}

func Publish(id uint16, topic string, payload []byte, qos byte, retain bool) []byte {
	p := packets.NewControlPacket(packets.Publish).(*packets.PublishPacket)
	p.MessageID = id
	p.TopicName = topic
	p.Payload = payload
	p.Qos = qos
	p.Retain = retain
	return Encode(p)
}

func Disconnect() []byte { return Encode(packets.NewControlPacket(packets.Disconnect)) }
func Pingreq() []byte    { return Encode(packets.NewControlPacket(packets.Pingreq)) }
