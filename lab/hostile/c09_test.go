//go:build verif

// C09 — hostile or malformed input cannot take the broker down (DESIGN §5 C09).
// A child process (memory ceiling, input index logged before each input) runs a real broker with a
// canary client; the parent feeds hostile client-port byte streams, well-formed requests with
// extreme parameters and cluster-side payloads, and attributes every process death, hang or canary
// failure to the input that caused it (crash signature = kind + innermost frames).
package hostile

import (
	"encoding/json"
	"fmt"
	"os"
	"regexp"
	"runtime"
	"strconv"
	"sort"
	"strings"
	"testing"
	"time"

	"github.com/emitter-io/emitter/internal/event"
	"github.com/emitter-io/emitter/internal/message"
	"github.com/emitter-io/emitter/internal/network/listener"
	"github.com/emitter-io/emitter/internal/security"
	"github.com/emitter-io/emitter/verif/lab/brokerlab"
	"github.com/emitter-io/emitter/verif/lab/fakenet"
	"github.com/emitter-io/emitter/verif/lab/isolate"
	"github.com/emitter-io/emitter/verif/lab/mqttref"
	"github.com/emitter-io/emitter/verif/lab/vk"
	"github.com/golang/snappy"
	"github.com/weaveworks/mesh"
)

// ---- child side -----------------------------------------------------------------------------

type childState struct {
	b      *brokerlab.Broker
	canary *brokerlab.Client
	key    string
	seq    int
}

var child *childState

func childSetup() *childState {
	if child != nil {
		return child
	}
	b, err := brokerlab.NewBroker(brokerlab.Opts{License: os.Getenv("VERIF_C09_LICENSE"), Storage: os.Getenv("VERIF_C09_STORAGE"), StorageDir: os.Getenv("VERIF_C09_STORAGE_DIR")})
	if err != nil {
		fmt.Fprintln(os.Stderr, "child: broker:", err)
		os.Exit(5)
	}
	c := &childState{b: b}
	b.Svc.VerifStartSurveyor() // Listen() subscribes the surveyor to the query channel
	c.key = b.MustKey("#/", brokerlab.Perms("rwlsp"))
	c.canary = b.Attach("canary", nil)
	c.canary.Wait = 150 * time.Second
	if rc, err := c.canary.Connect("canary", "", nil); err != nil || rc != 0 {
		os.Exit(5)
	}
	if rc, _, err := c.canary.Subscribe(c.key + "/canary/"); err != nil || rc != 0 {
		os.Exit(5)
	}
	// one stored message so that history lookups have something to find
	c.canary.Publish(c.key+"/canary/?ttl=3600", []byte("stored"), false)
	c.canary.Take()
	child = c
	return c
}

// blockedHandlers looks, after a canary watchdog, for connection goroutines that have been blocked INSIDE the handling of a
// received packet (broker.(*Conn).onReceive on their stack) on a lock, channel or condition for two minutes or more - the
// runtime prints the wait time in the goroutine header. A goroutine merely waiting for input is not inside onReceive, and a
// slow but progressing one is not blocked for minutes: this separates a deadlock from a loaded machine without a threshold
// on CPU time. Returns the innermost non-runtime frames of the first such goroutine, or "".
var blockedHdr = regexp.MustCompile(`^goroutine \d+ \[(sync\.Mutex\.Lock|sync\.RWMutex\.R?Lock|semacquire|chan send|chan receive|select|sync\.Cond\.Wait|sync\.WaitGroup\.Wait)[^\]]*, (\d+) minutes\]`)

func blockedHandlers() string {
	buf := make([]byte, 8<<20)
	buf = buf[:runtime.Stack(buf, true)]
	for _, g := range strings.Split(string(buf), "\n\n") {
		lines := strings.Split(g, "\n")
		m := blockedHdr.FindStringSubmatch(lines[0])
		if m == nil || !strings.Contains(g, "internal/broker.(*Conn).onReceive") {
			continue
		}
		if n, _ := strconv.Atoi(m[2]); n < 2 {
			continue
		}
		var frames []string
		for _, l := range lines[1:] {
			if l == "" || l[0] == '\t' || l[0] == ' ' || strings.HasPrefix(l, "created by") {
				continue
			}
			if i := strings.LastIndex(l, "("); i > 0 {
				l = l[:i]
			}
			if strings.HasPrefix(l, "runtime.") || strings.HasPrefix(l, "sync.") || strings.HasPrefix(l, "internal/") {
				continue
			}
			frames = append(frames, l)
			if len(frames) == 3 {
				break
			}
		}
		return fmt.Sprintf("[%s, %s minutes] %s", m[1], m[2], strings.Join(frames, " < "))
	}
	return ""
}

// insideHandler returns the innermost non-runtime frames of a goroutine that has broker.(*Conn).onReceive on its stack.
func insideHandler() string {
	buf := make([]byte, 8<<20)
	buf = buf[:runtime.Stack(buf, true)]
	for _, g := range strings.Split(string(buf), "\n\n") {
		if !strings.Contains(g, "internal/broker.(*Conn).onReceive") {
			continue
		}
		var frames []string
		for _, l := range strings.Split(g, "\n")[1:] {
			if l == "" || l[0] == '\t' || l[0] == ' ' || strings.HasPrefix(l, "created by") {
				continue
			}
			if i := strings.LastIndex(l, "("); i > 0 {
				l = l[:i]
			}
			if strings.HasPrefix(l, "runtime.") || strings.HasPrefix(l, "sync.") || strings.HasPrefix(l, "internal/") {
				continue
			}
			frames = append(frames, l)
			if len(frames) == 3 {
				break
			}
		}
		return strings.Join(frames, " < ")
	}
	return ""
}

func (c *childState) canaryRound() string {
	c.seq++
	p := fmt.Sprintf("canary-%d", c.seq)
	if _, err := c.canary.Publish(c.key+"/canary/", []byte(p), false); err != nil {
		if err == brokerlab.ErrWatchdog {
			if b := blockedHandlers(); b != "" {
				return "canary-hang: " + b
			}
		}
		return "canary-failed: " + err.Error()
	}
	got, _ := c.canary.Take()
	for _, g := range got {
		if g.Payload == p {
			return "ok"
		}
	}
	return "canary-failed: echo not received"
}

type errTimeout struct{}

func (errTimeout) Error() string   { return "write tcp: i/o timeout" }
func (errTimeout) Timeout() bool   { return true }
func (errTimeout) Temporary() bool { return true }

func handle(in []byte) string {
	c := childSetup()
	if len(in) == 0 {
		return "empty"
	}
	kind, body := in[0], in[1:]
	res := ""
	switch kind {
	case 'C': // client-port bytes
		cl, sv := fakenet.Pair()
		c.b.Svc.VerifAttach(sv)
		cl.Write(body)
		cl.CloseWrite()
		select {
		case <-sv.Closed():
			res = "closed"
		case <-time.After(120 * time.Second):
			// a watchdog alone decides nothing: it is a finding only if some connection goroutine is still INSIDE the handling
			// of a packet two minutes after an input of at most 64 KiB ended (spinning or blocked) - otherwise inconclusive
			if fr := insideHandler(); fr != "" {
				res = "connection-not-closed: still handling a packet: " + fr
			} else {
				res = "connection-watchdog"
			}
		}
		cl.Close()
	case 'S', 'A': // a subscriber of the canary's channel behind the real listener.Conn whose socket stops accepting writes ('S') or is cut ('A')
		if len(body) < 2 {
			return "short scenario"
		}
		rate := []int{1, 3, 60, 1000}[int(body[0])%4]
		rounds := 2 + int(body[1])%5
		cl, sv := fakenet.Pair()
		c.b.Svc.VerifAttach(listener.VerifNewConn(sv, rate))
		cl.Write(append(mqttref.Connect("stalled", "", nil), mqttref.Subscribe(1, c.key+"/canary/")...))
		deadline := time.Now().Add(120 * time.Second)
		var raw []byte
		for {
			raw = append(raw, cl.TakeAll()...)
			pk, _, _ := mqttref.Split(raw)
			ack := false
			for _, p := range pk {
				if len(p) > 0 && p[0]>>4 == 9 {
					ack = true
				}
			}
			if ack {
				break
			}
			if time.Now().After(deadline) {
				cl.Close()
				return "scenario-setup-watchdog | " + c.canaryRound()
			}
			cl.WaitData(20 * time.Millisecond)
		}
		if kind == 'S' {
			sv.FailWrites(errTimeout{})
		} else {
			cl.Close()
		}
		res = fmt.Sprintf("subscriber-%c rate=%d", kind, rate)
		for phase := 0; phase < 2; phase++ {
			for i := 0; i < rounds; i++ {
				if r := c.canaryRound(); r != "ok" {
					cl.Close()
					return res + " | " + r
				}
			}
			if phase == 0 && body[1]%2 == 0 {
				// let the connection's 1 s flush timer fire on the queued output before the next burst (not a verdict:
				// only widens the schedules reached; the code under test owns this timer)
				time.Sleep(1300 * time.Millisecond)
			}
		}
		cl.Close()
		select {
		case <-sv.Closed():
		case <-time.After(120 * time.Second):
			res += " connection-not-closed"
		}
	case 'G':
		_, err := c.b.Svc.VerifSwarm().OnGossip(body)
		res = fmt.Sprintf("gossip err=%v", err != nil)
	case 'B':
		_, err := c.b.Svc.VerifSwarm().OnGossipBroadcast(mesh.PeerName(77), body)
		res = fmt.Sprintf("broadcast err=%v", err != nil)
	case 'U':
		err := c.b.Svc.VerifSwarm().OnGossipUnicast(mesh.PeerName(77), body)
		res = fmt.Sprintf("unicast err=%v", err != nil)
	default:
		return "unknown kind"
	}
	return res + " | " + c.canaryRound()
}

func TestIsolateChild(t *testing.T) {
	if !isolate.ChildMain(map[string]isolate.Handler{"c09": handle}) {
		t.Skip("child only")
	}
}

// ---- parent side: generators ----------------------------------------------------------------

type hin struct {
	kind  string // generator class
	bytes []byte
}

func session(key string, parts ...[]byte) []byte {
	out := append([]byte{'C'}, mqttref.Connect("h", "", nil)...)
	for _, p := range parts {
		out = append(out, p...)
	}
	return out
}

func req(id uint16, name string, v interface{}) []byte {
	b, _ := json.Marshal(v)
	return mqttref.Publish(id, "emitter/"+name+"/", b, 1, false)
}

func genInputs(r *vk.Rand, key, master string, n int, tkeys map[string]string) []hin {
	var out []hin
	add := func(kind string, b []byte) { out = append(out, hin{kind, b}) }
	valid := [][]byte{
		session(key, mqttref.Subscribe(1, key+"/a/b/"), mqttref.Publish(2, key+"/a/b/", []byte("hello"), 1, false), mqttref.Unsubscribe(3, key+"/a/b/"), mqttref.Pingreq(), mqttref.Disconnect()),
		session(key, req(1, "keygen", map[string]interface{}{"key": master, "channel": "x/", "type": "rw", "ttl": 10}), req(2, "presence", map[string]interface{}{"key": key, "channel": "a/", "status": true, "changes": true}),
			req(3, "link", map[string]interface{}{"name": "l1", "key": key, "channel": "a/b/", "subscribe": true}), req(4, "me", map[string]interface{}{}), req(5, "history", map[string]interface{}{"key": key, "channel": key + "/canary/?last=5"})),
		append([]byte{'C'}, mqttref.Connect("w", "user", &mqttref.Will{Topic: key + "/a/will/", Payload: []byte("bye"), Retain: true})...),
	}
	// (2) well-formed requests with extreme parameters (always included)
	extremes := []string{"0", "1", "2147483648", "100000000", "1000000000", "9223372036854775807", "99999999999999999999", "abc", "00000000000000000001"}
	for _, opt := range []string{"last", "ttl", "from", "until", "me"} {
		for _, v := range extremes {
			add("extreme-option/subscribe/"+opt, session(key, mqttref.Subscribe(1, key+"/canary/?"+opt+"="+v)))
			add("extreme-option/publish/"+opt, session(key, mqttref.Publish(1, key+"/a/b/?"+opt+"="+v, []byte("x"), 1, true)))
			add("extreme-option/history/"+opt, session(key, req(1, "history", map[string]interface{}{"key": key, "channel": key + "/canary/?" + opt + "=" + v})))
		}
	}
	// option syntax: every string over {a,1,=,&} up to length 5 after the '?', on subscribe/publish/will/JSON channel
	alpha := "a1=&"
	var optStrs []string
	var gen func(cur string)
	gen = func(cur string) {
		if len(cur) > 0 {
			optStrs = append(optStrs, cur)
		}
		if len(cur) == 5 {
			return
		}
		for i := 0; i < len(alpha); i++ {
			gen(cur + string(alpha[i]))
		}
	}
	gen("")
	optStrs = append(optStrs, "ttl=1&x", "last=5&until", "ttl=1&&last=2", "a=b&c", "me=0&", "&ttl=1", "ttl==1", "?ttl=1", "ttl=1?last=2")
	for i, o := range optStrs {
		switch i % 4 {
		case 0:
			add("extreme-option-syntax/subscribe", session(key, mqttref.Subscribe(1, key+"/canary/?"+o)))
		case 1:
			add("extreme-option-syntax/publish", session(key, mqttref.Publish(1, key+"/a/b/?"+o, []byte("x"), 1, false)))
		case 2:
			add("extreme-option-syntax/will", append([]byte{'C'}, mqttref.Connect("w", "", &mqttref.Will{Topic: key + "/a/will/?" + o, Payload: []byte("bye")})...))
		case 3:
			add("extreme-option-syntax/json", session(key, req(1, "history", map[string]interface{}{"key": key, "channel": key + "/canary/?" + o}), req(2, "link", map[string]interface{}{"name": "l1", "key": key, "channel": "a/b/?" + o, "subscribe": true})))
		}
	}
	var many []string
	for i := 0; i < 1500; i++ {
		many = append(many, fmt.Sprintf("%s/m/%d/", key, i))
	}
	add("extreme/subscribe-1500-tuples", session(key, mqttref.Subscribe(1, many...)))
	add("extreme/unsubscribe-1500-tuples", session(key, mqttref.Unsubscribe(1, many...)))
	add("extreme/64k-topic", session(key, mqttref.Subscribe(1, key+"/"+strings.Repeat("a/", 30000))))
	add("extreme/64k-topic-publish", session(key, mqttref.Publish(1, key+"/"+strings.Repeat("a", 65000)+"/", []byte("x"), 1, false)))
	add("extreme/deep-channel", session(key, mqttref.Subscribe(1, key+"/"+strings.Repeat("a/", 500)), mqttref.Publish(2, key+"/"+strings.Repeat("a/", 500), []byte("x"), 1, true)))
	// channels of every depth around the limits of the key format (the bit-path of a key target has 23 positions), on every
	// place a channel can be named, with keys whose target is the root, exact, a '#/' sub-tree and a wildcard level
	tnames := make([]string, 0, len(tkeys))
	for t := range tkeys {
		tnames = append(tnames, t)
	}
	sort.Strings(tnames)
	for _, tname := range tnames {
		k := tkeys[tname]
		prefix := strings.TrimSuffix(strings.ReplaceAll(tname, "+", "p"), "#/")
		for _, depth := range []int{1, 2, 3, 21, 22, 23, 24, 25, 26, 31, 32, 33, 64, 100} {
			for shape, lvl := range []string{"x/", "+/"} {
				ch := prefix + strings.Repeat(lvl, depth)
				if shape == 1 && depth > 26 {
					continue
				}
				kind := fmt.Sprintf("extreme/deep-channel/%s", map[int]string{0: "literal", 1: "wildcard"}[shape])
				add(kind, session(k, mqttref.Subscribe(1, k+"/"+ch), mqttref.Unsubscribe(2, k+"/"+ch)))
				add(kind, session(k, mqttref.Publish(1, k+"/"+ch, []byte("x"), 1, depth%2 == 0)))
				add(kind, append([]byte{'C'}, mqttref.Connect("w", "", &mqttref.Will{Topic: k + "/" + ch, Payload: []byte("bye"), Retain: depth%2 == 1})...))
				add(kind, session(k, req(1, "link", map[string]interface{}{"name": "dl", "key": k, "channel": ch, "subscribe": true}), mqttref.Publish(2, "dl", []byte("x"), 1, false)))
				add(kind, session(k, req(1, "presence", map[string]interface{}{"key": k, "channel": ch, "status": true, "changes": true})))
				add(kind, session(k, req(1, "history", map[string]interface{}{"key": k, "channel": k + "/" + ch + "?last=3"})))
				add(kind, session(k, req(1, "keygen", map[string]interface{}{"key": master, "channel": ch, "type": "rwe", "ttl": 60}), req(2, "keygen", map[string]interface{}{"key": k, "channel": ch, "type": "rw"})))
				add(kind, session(k, req(1, "keyban", map[string]interface{}{"secret": master, "target": k, "banned": false})))
			}
		}
	}
	lsz := []int{65000, 65400}
	for sz := 65470; sz <= 65540; sz += 1 + sz%2 { // sizes around the limit, through every path that re-encodes the message
		lsz = append(lsz, sz)
	}
	for _, sz := range lsz {
		add("extreme/large-payload", session(key, mqttref.Subscribe(1, key+"/big/"), mqttref.Publish(2, key+"/big/", []byte(strings.Repeat("p", sz)), 1, false)))
		add("extreme/large-payload-via-link", session(key, req(1, "link", map[string]interface{}{"name": "zz", "key": key, "channel": "big/", "subscribe": true}), mqttref.Publish(2, "zz", []byte(strings.Repeat("p", sz)), 1, false)))
		add("extreme/large-payload-retained", session(key, mqttref.Publish(2, key+"/canary/", []byte(strings.Repeat("p", sz)), 1, true)))
	}
	big := strings.Repeat("k", 60000)
	for _, name := range []string{"keygen", "keyban", "link", "presence", "history", "me"} {
		add("extreme/json/"+name, session(key, req(1, name, map[string]interface{}{"key": big, "channel": big, "type": big, "ttl": 2147483647, "name": big, "secret": big, "target": big, "banned": true, "status": true, "changes": true, "subscribe": true, "startFromID": "AAAA"})))
		add("extreme/json/"+name, session(key, mqttref.Publish(1, "emitter/"+name+"/", []byte(`{"key":`+strings.Repeat("[", 20000)), 1, false)))
		add("extreme/json/"+name, session(key, mqttref.Publish(1, "emitter/"+name+"/", []byte(`{"ttl":1e400,"key":null,"channel":{"a":1},"changes":"x"}`), 1, false)))
	}
	add("extreme/history-startFromID-short", session(key, req(1, "history", map[string]interface{}{"key": key, "channel": key + "/canary/", "startFromID": []byte{1, 2, 3}})))
	// subscribers of a busy channel whose socket stops accepting writes, or is cut, while output is queued for them
	for rate := 0; rate < 4; rate++ {
		for rounds := 0; rounds < 5; rounds += 2 {
			add("extreme/stalled-subscriber", []byte{'S', byte(rate), byte(rounds)})
			add("extreme/cut-subscriber", []byte{'A', byte(rate), byte(rounds)})
		}
	}
	// over-long remaining length: must end the connection
	for _, hdr := range [][]byte{{0x30, 0xff, 0xff, 0xff, 0x7f}, {0x30, 0x81, 0x80, 0x04}, {0x82, 0xff, 0xff, 0x7f}, {0x10, 0xff, 0xff, 0xff, 0xff, 0xff}} {
		add("oversize-remaining-length", append(append([]byte{'C'}, hdr...), make([]byte, 70000)...))
		add("oversize-remaining-length", append([]byte{'C'}, hdr...))
	}
	// (1) raw bytes
	for k := 0; k < n*6/10; k++ {
		switch r.Intn(5) {
		case 0:
			add("random-bytes", append([]byte{'C'}, r.Bytes(r.Range(1, 300))...))
		case 1: // truncation of a valid session at a random offset
			v := valid[r.Intn(len(valid))]
			add("truncated-session", append([]byte(nil), v[:1+r.Intn(len(v))]...))
		case 2: // byte/bit mutation
			v := append([]byte(nil), valid[r.Intn(len(valid))]...)
			for m := 1 + r.Intn(4); m > 0; m-- {
				i := 1 + r.Intn(len(v)-1)
				if r.Bool() {
					v[i] ^= 1 << uint(r.Intn(8))
				} else {
					v[i] = byte(r.U32())
				}
			}
			add("mutated-session", v)
		case 3: // length fields inside packets pointing past the end
			v := append([]byte(nil), valid[r.Intn(len(valid))]...)
			i := 1 + r.Intn(len(v)-2)
			v[i], v[i+1] = 0xff, byte(r.U32())
			add("inflated-inner-length", v)
		case 4: // a CONNECT followed by garbage typed as each packet type with a short body
			t := byte(1+r.Intn(14)) << 4
			body := r.Bytes(r.Intn(6))
			add("short-body-packet", append(append([]byte{'C'}, mqttref.Connect("h", "", nil)...), append([]byte{t | byte(r.Intn(16)), byte(len(body))}, body...)...))
		}
	}
	// (3) cluster side
	st := event.NewState("")
	ban := event.Ban("somekey")
	st.Add(&ban)
	st.Add(&event.Subscription{Peer: 5, Conn: 9, Ssid: message.Ssid{1, 2, 3}, Channel: []byte("a/b/")})
	st.Add(&event.Connection{Peer: 5, Conn: 9, ClientID: []byte("c")})
	validState := st.Encode()[0]
	canaryCh := security.ParseChannel([]byte("k/canary/"))
	fr := message.Frame{*message.New(message.Ssid{1, 2}, []byte("a/"), []byte("p")), {ID: message.ID("short"), Channel: []byte("x"), Payload: []byte("y")}, {ID: nil, Channel: nil, Payload: nil}}
	validFrame := fr.Encode()
	kinds := []byte{'G', 'B', 'U'}
	envelope := func(plain []byte) []byte { return snappy.Encode(nil, plain) }
	// always-included cluster inputs
	for _, k := range kinds {
		add("cluster/valid-state", append([]byte{k}, validState...))
		add("cluster/valid-frame", append([]byte{k}, validFrame...))
		add("cluster/empty", []byte{k})
		add("cluster/snappy-huge-length", append([]byte{k}, 0xff, 0xff, 0xff, 0xff, 0x0f, 0x00))
		add("cluster/snappy-1gib-length", append([]byte{k}, 0x80, 0x80, 0x80, 0x80, 0x04, 0x00))
		add("cluster/binary-huge-slice", append([]byte{k}, envelope([]byte{0xff, 0xff, 0xff, 0xff, 0xff, 0x0f, 1, 2, 3})...))
		add("cluster/binary-huge-map", append([]byte{k}, envelope([]byte{0x03, 0x00, 0xff, 0xff, 0xff, 0xff, 0x7f})...))
	}
	_ = canaryCh
	// well-formed states (built through the real API, so they pass every decoder) whose events have odd shapes:
	// empty / one-word / very long ssids, zero and own peer names, empty and huge keys, add-only, remove-only and both
	oddSsids := []message.Ssid{{}, {1}, {1, 2}, make(message.Ssid, 300), {0xffffffff, 0xffffffff, 0xffffffff}}
	oddPeers := []uint64{0, 1, 5, 0xffffffffffffffff}
	oddN := 0
	for _, ss := range oddSsids {
		for _, pr := range oddPeers {
			for mode := 0; mode < 3; mode++ {
				oddN++
				if oddN%3 != int(r.Intn(3)) && n < 2000 { // a third of them per run in the small tiers
					continue
				}
				o := event.NewState("")
				sub := &event.Subscription{Peer: pr, Conn: security.ID(oddN % 3), Ssid: ss, Channel: []byte(strings.Repeat("c/", oddN%4))}
				con := &event.Connection{Peer: pr, Conn: security.ID(oddN % 3)}
				bn := event.Ban(strings.Repeat("k", []int{0, 1, 32, 70000}[oddN%4]))
				if mode != 1 {
					o.Add(sub)
					o.Add(con)
					o.Add(&bn)
				}
				if mode != 0 {
					o.Del(sub)
					o.Del(con)
					o.Del(&bn)
				}
				for _, k := range []byte{'G', 'B'} {
					add("cluster/odd-event-state", append([]byte{k}, o.Encode()[0]...))
				}
			}
		}
	}
	// frames addressed to the live canary subscriber, with normal and over-long bodies, and odd ids
	add("cluster/frame-to-live-subscriber", nil) // placeholder replaced by the caller (needs the contract)
	for q := 0; q < n*4/10; q++ {
		k := kinds[r.Intn(3)]
		switch r.Intn(5) {
		case 0:
			add("cluster/random", append([]byte{k}, r.Bytes(r.Range(1, 200))...))
		case 1:
			v := append([]byte(nil), validState...)
			for m := 1 + r.Intn(3); m > 0; m-- {
				v[r.Intn(len(v))] = byte(r.U32())
			}
			add("cluster/mutated-state", append([]byte{k}, v...))
		case 2:
			v := append([]byte(nil), validFrame...)
			for m := 1 + r.Intn(3); m > 0; m-- {
				v[r.Intn(len(v))] = byte(r.U32())
			}
			add("cluster/mutated-frame", append([]byte{k}, v...))
		case 3: // valid envelope, mutated plain bytes (reaches the binary decoder)
			plain, _ := snappy.Decode(nil, validState)
			if r.Bool() {
				plain, _ = snappy.Decode(nil, validFrame)
			}
			v := append([]byte(nil), plain...)
			for m := 1 + r.Intn(3); m > 0; m-- {
				v[r.Intn(len(v))] = byte(r.U32())
			}
			add("cluster/mutated-plain", append([]byte{k}, envelope(v)...))
		case 4: // truncated plain
			plain, _ := snappy.Decode(nil, validState)
			add("cluster/truncated-plain", append([]byte{k}, envelope(plain[:r.Intn(len(plain))])...))
		}
	}
	return out
}

func TestC09(t *testing.T) {
	rec := vk.New("C09", "hostile")
	defer rec.Finish(t)
	rec.Rule("case = one hostile input fed to a real broker running in a child process under a 6 GiB address-space ceiling, with the input index logged before it: (1) client-port byte streams - random, valid sessions truncated at random offsets, bit/byte mutations, inflated inner and remaining-length fields, short bodies for every packet type; " +
		"(2) well-formed requests with extreme parameters - last/ttl/from/until/me in {0,1,2^31,10^8,10^9,2^63-1,overflow,non-numeric}, every option string over {a,1,=,&} up to length 5 on subscribe/publish/will/JSON channels, 1500-tuple SUBSCRIBE, 64 KiB topics, payloads at the encode-buffer edge (direct, via link, retained), huge/odd JSON for every emitter/ request; (3) cluster side - random and mutated states/frames, valid snappy envelopes with hostile length prefixes, frames to a live local subscriber; " +
		"after every input a canary client does a publish/echo round trip; refuted by process death, hang, canary failure, a connection the broker never closes, or a panic escaping a gossip entry point; non-trivial = every input; distinct = hash of the input bytes")
	lic := brokerlab.Opts{}
	pb, err := brokerlab.NewBroker(lic)
	if err != nil {
		rec.Inconclusive(err.Error())
		return
	}
	key := pb.MustKey("#/", brokerlab.Perms("rwlsp"))
	master := pb.Master
	tkeys := map[string]string{"#/": key}
	for _, t := range []string{"a/b/c/", "a/#/", "+/b/", "a/"} {
		tkeys[t] = pb.MustKey(t, brokerlab.Perms("rwlspe"))
	}
	licStr := pb.LicString
	contract := pb.Contract
	pb.Close()
	shard, nsh := vk.Shard()
	r := vk.NewRand(vk.Seed(), "C09", shard)
	n := vk.N(3000, 120000) / nsh
	ins := genInputs(r, key, master, n, tkeys)
	// frames addressed to the canary's channel (the child subscribes to canary/ under the same licence)
	cq := security.ParseChannel([]byte("k/canary/")).Query
	var filled []hin
	for _, in := range ins {
		if in.bytes != nil {
			filled = append(filled, in)
			continue
		}
		szs := []int{10, 65000, 70000, 200000}
		for sz := 65490; sz <= 65545; sz++ { // every size around the encoder's limit (channel + payload + 2 crosses 65536 in here)
			szs = append(szs, sz)
		}
		for _, sz := range szs {
			m := message.New(message.NewSsid(contract, cq), []byte("canary/"), []byte(strings.Repeat("F", sz)))
			f := message.Frame{*m}
			filled = append(filled, hin{"cluster/frame-to-live-subscriber", append([]byte{'U'}, f.Encode()...)})
		}
		for _, id := range []message.ID{nil, message.ID("x"), message.ID(strings.Repeat("i", 15)), message.ID(strings.Repeat("i", 17))} {
			f := message.Frame{{ID: id, Channel: []byte("canary/"), Payload: []byte("odd id")}}
			filled = append(filled, hin{"cluster/frame-odd-id", append([]byte{'U'}, f.Encode()...)})
		}
		// a query frame without '/' in its channel, and a 1-element ssid
		q := message.New(message.Ssid{0, 3939663052, 1}, []byte("noslash"), []byte("x"))
		filled = append(filled, hin{"cluster/survey-frame", append([]byte{'U'}, (&message.Frame{*q}).Encode()...)})
	}
	ins = filled
	// sharding: the always-included inputs are split over the shards, the random tail differs per shard
	var mine []hin
	for i, in := range ins {
		if strings.HasPrefix(in.kind, "extreme") || strings.HasPrefix(in.kind, "oversize") || (strings.HasPrefix(in.kind, "cluster/") && !strings.Contains(in.kind, "mutated") && !strings.Contains(in.kind, "random") && !strings.Contains(in.kind, "truncated")) {
			if i%nsh != shard {
				continue
			}
		}
		mine = append(mine, in)
	}
	raw := make([][]byte, len(mine))
	for i := range mine {
		raw[i] = mine[i].bytes
	}
	env := []string{"VERIF_C09_LICENSE=" + licStr}
	if shard%2 == 1 {
		d, _ := os.MkdirTemp(os.Getenv("VERIF_SCRATCH"), "c09ssd-")
		defer os.RemoveAll(d)
		env = append(env, "VERIF_C09_STORAGE=ssd", "VERIF_C09_STORAGE_DIR="+d)
	}
	outs, err := isolate.Run(os.Getenv("VERIF_BIN"), "TestIsolateChild", "c09", os.Getenv("VERIF_SCRATCH"), raw, 400*time.Second, env...)
	if err != nil {
		rec.Inconclusive("isolate: " + err.Error())
		return
	}
	for i, o := range outs {
		in := mine[i]
		rec.Case(vk.Hash(string(in.bytes)), true)
		rec.Inc("inputs_" + strings.SplitN(in.kind, "/", 2)[0])
		side := "client-port"
		if in.bytes[0] != 'C' && in.bytes[0] != 'S' && in.bytes[0] != 'A' {
			side = "cluster-port"
		}
		w := map[string]interface{}{"generator": in.kind, "side": side, "input_len": len(in.bytes) - 1, "input_head_hex": fmt.Sprintf("%x", head(in.bytes[1:], 64))}
		if len(in.bytes) < 5000 {
			w["input_hex"] = fmt.Sprintf("%x", in.bytes[1:])
		}
		switch {
		case o.Died:
			rec.Inc("process_deaths")
			w["stderr"] = o.Tail
			m := side + "/process-" + o.Signature
			if o.Kind == "fatal-out-of-memory" {
				// the defect class is "allocates from an untrusted length": identify it by the package that allocates
				m = side + "/process-fatal-out-of-memory in " + pkgOf(o.Signature)
			}
			rec.Violation(i, m, fmt.Sprintf("%s input (%s, %d bytes) ends the broker process: %s", side, in.kind, len(in.bytes)-1, o.Signature), w)
		case strings.HasPrefix(o.Result, "panic"):
			// only the cluster entry points run in the handler's goroutine: mesh calls them without recover
			sig := o.Result
			if j := strings.Index(sig, " || "); j >= 0 {
				sig = sig[j+4:]
			}
			rec.Inc("escaping_panics")
			w["panic"] = o.Result
			rec.Violation(i, side+"/escaping-"+sig, fmt.Sprintf("%s input (%s) panics in a gossip entry point that mesh calls without recover: %s", side, in.kind, o.Result), w)
		case strings.Contains(o.Result, "canary-hang: "):
			sig := o.Result[strings.Index(o.Result, "canary-hang: ")+13:]
			if j := strings.Index(sig, "] "); j >= 0 {
				sig = sig[j+2:]
			}
			w["blocked"] = o.Result
			rec.Violation(i, side+"/hang @ "+sig, fmt.Sprintf("after %s input (%s) a connection goroutine is blocked for minutes inside the handling of a packet and the canary client is no longer served: %s", side, in.kind, o.Result), w)
		case strings.Contains(o.Result, "canary-failed") && strings.Contains(o.Result, "watchdog expired"):
			rec.Inconclusive("canary round trip watchdog after " + in.kind)
		case strings.Contains(o.Result, "canary-failed"):
			rec.Violation(i, side+"/canary-failed", fmt.Sprintf("after %s input (%s) the canary client is no longer served: %s", side, in.kind, o.Result), w)
		case strings.HasPrefix(o.Result, "connection-not-closed"):
			rec.Violation(i, side+"/connection-not-closed", fmt.Sprintf("the broker did not close the connection after its input ended (%s): %s", in.kind, o.Result), w)
		case strings.HasPrefix(o.Result, "connection-watchdog"):
			rec.Inconclusive("connection close watchdog after " + in.kind)
		case o.Result == "":
			rec.Inconclusive("no result for input " + in.kind)
		default:
			rec.Inc("inputs_survived")
		}
		if rec.WantSample() && i%97 == 0 {
			rec.Sample(map[string]interface{}{"generator": in.kind, "len": len(in.bytes) - 1, "head_hex": fmt.Sprintf("%x", head(in.bytes[1:], 32)), "result": o.Result})
		}
	}
}

func head(b []byte, n int) []byte {
	if len(b) > n {
		return b[:n]
	}
	return b
}

// pkgOf extracts the package path of the innermost frame of a crash signature.
func pkgOf(sig string) string {
	if i := strings.Index(sig, " @ "); i >= 0 {
		sig = sig[i+3:]
	}
	if i := strings.Index(sig, " < "); i >= 0 {
		sig = sig[:i]
	}
	slash := strings.LastIndex(sig, "/")
	if dot := strings.Index(sig[slash+1:], "."); dot >= 0 {
		return sig[:slash+1+dot]
	}
	return sig
}
