// Package isolate runs hostile inputs against the code under test in a child process with a memory
// ceiling, logging each input index before the call, so that a process-fatal outcome (fatal error,
// out of memory, ceiling hit, hang) is attributed to the input that caused it and the batch goes on.
package isolate

import (
	"bufio"
	"encoding/binary"
	"fmt"
	"io"
	"os"
	"os/exec"
	"path/filepath"
	"runtime/debug"
	"strconv"
	"strings"
	"syscall"
	"time"
)

// Handler processes one input inside the child and returns a short result string.
type Handler func(input []byte) string

// Outcome of one input.
type Outcome struct {
	Index     int
	Result    string // handler result, or "" when the process died
	Died      bool
	Signature string // normalised crash signature when Died
	Kind      string // fatal / panic / killed / hang
	Tail      string
}

const ceilingBytes = 6 << 30

// ChildMain must be called from a test function of the package (the child entry); it returns
// false when the process is not a child. It never returns in a child.
func ChildMain(handlers map[string]Handler) bool {
	job := os.Getenv("VERIF_ISOLATE_JOB")
	if job == "" {
		return false
	}
	h, ok := handlers[job]
	if !ok {
		fmt.Fprintln(os.Stderr, "isolate: unknown job", job)
		os.Exit(4)
	}
	lim := uint64(ceilingBytes)
	if v := os.Getenv("VERIF_ISOLATE_CEILING"); v != "" {
		if n, err := strconv.ParseUint(v, 10, 64); err == nil {
			lim = n
		}
	}
	syscall.Setrlimit(syscall.RLIMIT_AS, &syscall.Rlimit{Cur: lim, Max: lim})
	start, _ := strconv.Atoi(os.Getenv("VERIF_ISOLATE_START"))
	in, err := os.Open(os.Getenv("VERIF_ISOLATE_INPUTS"))
	if err != nil {
		os.Exit(4)
	}
	prog, _ := os.OpenFile(os.Getenv("VERIF_ISOLATE_PROGRESS"), os.O_CREATE|os.O_WRONLY|os.O_TRUNC, 0o644)
	res, _ := os.OpenFile(os.Getenv("VERIF_ISOLATE_RESULTS"), os.O_CREATE|os.O_WRONLY|os.O_APPEND, 0o644)
	rd := bufio.NewReaderSize(in, 1<<20)
	for i := 0; ; i++ {
		var l uint32
		if err := binary.Read(rd, binary.LittleEndian, &l); err != nil {
			break
		}
		buf := make([]byte, l)
		if _, err := io.ReadFull(rd, buf); err != nil {
			break
		}
		if i < start {
			continue
		}
		prog.WriteAt([]byte(fmt.Sprintf("%012d", i)), 0)
		r := call(h, buf)
		fmt.Fprintf(res, "%d\t%s\n", i, strings.ReplaceAll(r, "\n", " "))
		if strings.HasPrefix(r, "panic:") || strings.Contains(r, "canary-hang") || strings.Contains(r, "canary-failed") {
			// a panic that escaped into the handler may have left locks held: the state of this process
			// is no longer what production would have (it would have died); start a fresh one. The same after a canary
			// that is no longer served: every later input would only wait for the same watchdog again
			res.Sync()
			os.Exit(7)
		}
	}
	prog.WriteAt([]byte("done        "), 0)
	os.Exit(0)
	return true
}

func call(h Handler, b []byte) (r string) {
	defer func() {
		if p := recover(); p != nil {
			_, sig := Classify("panic: x\n\ngoroutine 1 [running]:\n"+string(debug.Stack()), false)
			r = "panic: " + fmt.Sprint(p) + " || " + sig
		}
	}()
	return h(b)
}

// Run feeds the inputs to the job in child processes of the given test binary (entry = the test
// function that calls ChildMain) and returns one outcome per input.
func Run(bin, entry, job, scratch string, inputs [][]byte, perInput time.Duration, extraEnv ...string) ([]Outcome, error) {
	dir, err := os.MkdirTemp(scratch, "isolate-")
	if err != nil {
		return nil, err
	}
	defer os.RemoveAll(dir)
	inPath := filepath.Join(dir, "inputs")
	f, err := os.Create(inPath)
	if err != nil {
		return nil, err
	}
	w := bufio.NewWriter(f)
	for _, b := range inputs {
		binary.Write(w, binary.LittleEndian, uint32(len(b)))
		w.Write(b)
	}
	w.Flush()
	f.Close()
	progPath, resPath := filepath.Join(dir, "progress"), filepath.Join(dir, "results")
	out := make([]Outcome, len(inputs))
	for i := range out {
		out[i].Index = i
	}
	start := 0
	for start < len(inputs) {
		os.Remove(progPath)
		errPath := filepath.Join(dir, fmt.Sprintf("stderr-%d", start))
		ef, _ := os.Create(errPath)
		cmd := exec.Command(bin, "-test.run", "^"+entry+"$", "-test.timeout", "0")
		cmd.Env = append(append(os.Environ(), extraEnv...), "VERIF_ISOLATE_JOB="+job, "VERIF_ISOLATE_INPUTS="+inPath, "VERIF_ISOLATE_PROGRESS="+progPath,
			"VERIF_ISOLATE_RESULTS="+resPath, fmt.Sprintf("VERIF_ISOLATE_START=%d", start), "VERIF_OUT=", "GOTRACEBACK=all")
		cmd.Stdout, cmd.Stderr = ef, ef
		if err := cmd.Start(); err != nil {
			ef.Close()
			return nil, err
		}
		done := make(chan error, 1)
		go func() { done <- cmd.Wait() }()
		hang := false
		// watchdog on progress: if the index does not advance for perInput, the child hangs on it
		last, lastChange := -1, time.Now()
	wait:
		for {
			select {
			case <-done:
				break wait
			case <-time.After(200 * time.Millisecond):
				cur := readProgress(progPath)
				if cur != last {
					last, lastChange = cur, time.Now()
				} else if time.Since(lastChange) > perInput {
					hang = true
					cmd.Process.Signal(syscall.SIGQUIT)
					select {
					case <-done:
					case <-time.After(10 * time.Second):
						cmd.Process.Kill()
						<-done
					}
					break wait
				}
			}
		}
		ef.Close()
		p := readProgress(progPath)
		if p == -2 { // done
			break
		}
		if p < start {
			p = start // died before the first input was even logged: attribute to it conservatively
		}
		if hasResult(resPath, p) { // the child recorded a result for it and exited on purpose (escaped panic)
			start = p + 1
			continue
		}
		tailB, _ := os.ReadFile(errPath)
		tail := string(tailB)
		o := &out[p]
		o.Died = true
		o.Kind, o.Signature = Classify(tail, hang)
		if hang {
			for _, blk := range strings.Split(tail, "\n\n") {
				if strings.Contains(blk, "isolate.call(") {
					tail = blk
					break
				}
			}
		} else if i := strings.Index(tail, "fatal error:"); i >= 0 {
			tail = tail[i:]
		} else if i := strings.Index(tail, "panic:"); i >= 0 {
			tail = tail[i:]
		}
		if len(tail) > 4000 {
			tail = tail[:4000]
		}
		o.Tail = tail
		start = p + 1
	}
	if rf, err := os.Open(resPath); err == nil {
		sc := bufio.NewScanner(rf)
		sc.Buffer(make([]byte, 1<<20), 1<<20)
		for sc.Scan() {
			parts := strings.SplitN(sc.Text(), "\t", 2)
			if len(parts) == 2 {
				if i, err := strconv.Atoi(parts[0]); err == nil && i < len(out) && !out[i].Died {
					out[i].Result = parts[1]
				}
			}
		}
		rf.Close()
	}
	return out, nil
}

func hasResult(path string, idx int) bool {
	b, err := os.ReadFile(path)
	if err != nil {
		return false
	}
	return strings.Contains("\n"+string(b), fmt.Sprintf("\n%d\t", idx))
}

func readProgress(p string) int {
	b, err := os.ReadFile(p)
	if err != nil {
		return -1
	}
	s := strings.TrimSpace(string(b))
	if strings.HasPrefix(s, "done") {
		return -2
	}
	n, err := strconv.Atoi(s)
	if err != nil {
		return -1
	}
	return n
}

// funcName strips the argument list from a stack line ("pkg.(*T).fn(0x1, {...})" -> "pkg.(*T).fn").
func funcName(line string) string {
	if line == "" || line[0] == ' ' || line[0] == '\t' || !strings.HasSuffix(line, ")") || strings.HasPrefix(line, "created by") || strings.HasPrefix(line, "goroutine ") {
		return ""
	}
	depth := 0
	for i := len(line) - 1; i >= 0; i-- {
		switch line[i] {
		case ')':
			depth++
		case '(':
			depth--
			if depth == 0 {
				fn := line[:i]
				if strings.ContainsAny(fn, " \t") || !strings.Contains(fn, ".") || (fn[0] >= '0' && fn[0] <= '9') {
					return ""
				}
				return fn
			}
		}
	}
	return ""
}

// Classify normalises a crash: kind + innermost three non-runtime frames (function names only).
func Classify(stderr string, hang bool) (kind, sig string) {
	kind = "exit"
	switch {
	case hang:
		kind = "hang"
	case strings.Contains(stderr, "out of memory") || strings.Contains(stderr, "cannot allocate memory"):
		kind = "fatal-out-of-memory"
	case strings.Contains(stderr, "fatal error:"):
		kind = "fatal"
		if i := strings.Index(stderr, "fatal error:"); i >= 0 {
			line := stderr[i:]
			if j := strings.IndexByte(line, '\n'); j > 0 {
				line = line[:j]
			}
			kind = "fatal:" + strings.TrimSpace(strings.TrimPrefix(line, "fatal error:"))
		}
	case strings.Contains(stderr, "panic:"):
		kind = "panic"
	case strings.Contains(stderr, "signal: killed"):
		kind = "killed"
	}
	// the running goroutine's stack (for a hang: the goroutine that runs the handler)
	body := stderr
	if hang {
		for _, blk := range strings.Split(stderr, "\n\n") {
			if strings.Contains(blk, "isolate.call(") {
				body = blk
				break
			}
		}
	} else if i := strings.Index(stderr, "[running]:"); i >= 0 {
		body = stderr[i:]
		if j := strings.Index(body, "\n\n"); j > 0 {
			body = body[:j]
		}
	}
	var frames []string
	for _, ln := range strings.Split(body, "\n") {
		fn := funcName(strings.TrimRight(ln, "\r"))
		if fn == "" {
			continue
		}
		if strings.HasPrefix(fn, "runtime.") || strings.HasPrefix(fn, "runtime/") || strings.HasPrefix(fn, "reflect.") || strings.HasPrefix(fn, "testing.") || strings.Contains(fn, "/verif/lab/") || strings.HasPrefix(fn, "panic") {
			continue
		}
		frames = append(frames, fn)
		if len(frames) == 3 {
			break
		}
	}
	return kind, kind + " @ " + strings.Join(frames, " < ")
}
