//go:build verif

// C06 part "conc" — history queries running AT THE SAME TIME (two SUBSCRIBEs with a load key from different connections, a
// history request, a cluster survey: each on its own goroutine against the one store) return exactly what each of them asked
// for. The store is filled first and does not change for the queried channels (a writer keeps storing to other channels), so
// every answer is a function of the query; 8 goroutines query their own (contract, channel, limit) in a loop and compare
// every frame with the model answer computed beforehand. Race build.
package storelab

import (
	"bytes"
	"fmt"
	"sort"
	"sync"
	"sync/atomic"
	"testing"
	"time"

	"github.com/emitter-io/emitter/internal/message"
	"github.com/emitter-io/emitter/verif/lab/vk"
)

func TestC06Conc(t *testing.T) {
	rec := vk.New("C06", "conc")
	defer rec.Finish(t)
	rec.Rule("case = one real provider (inmemory / ssd) holding 8 channels x 2 contracts x 6-20 live messages (payloads 10 B..6 KB); 8 goroutines each run 150 (thorough 1500) queries for their own (contract, channel, limit) at the same time while another goroutine stores to channels nobody queries; every returned frame must equal the model answer for that query (ids, channel, payload, ttl), be ordered by time and contain no other channel's or contract's message; " +
		"non-trivial = every case; distinct = (provider, seed, case)")
	n := vk.N(10, 300)
	for ci := 0; ci < n; ci++ {
		if !vk.Mine(ci) {
			continue
		}
		runC06Conc(rec, ci)
	}
}

func runC06Conc(rec *vk.Rec, ci int) {
	r := vk.NewRand(vk.Seed(), "C06conc", ci)
	kind := []string{"inmemory", "ssd"}[ci%2]
	st, cleanup, _, err := newStore(kind, 0)
	if err != nil {
		rec.Inconclusive(err.Error())
		return
	}
	defer cleanup()
	now := time.Now().Unix()
	contracts := []uint32{0x61000000 | r.U32()&0xffffff, 0x62000000 | r.U32()&0xffffff}
	type chanKey struct {
		c  uint32
		lv string
	}
	model := map[chanKey][]*stored{}
	var keys []chanKey
	for _, c := range contracts {
		for k := 0; k < 8; k++ {
			ck := chanKey{c, fmt.Sprintf("q%d", k)}
			keys = append(keys, ck)
			for i := r.Range(6, 20); i > 0; i-- {
				size := r.Range(10, 300)
				if r.Chance(20) {
					size = r.Range(2000, 6000)
				}
				payload := bytes.Repeat([]byte{byte('a' + k)}, size)
				if r.Chance(40) {
					payload = r.Bytes(size) // incompressible
				}
				copy(payload, fmt.Sprintf("%x-%s-%d|", c, ck.lv, i))
				lv := []string{ck.lv, "x"}
				m := message.New(ssidOf(c, lv), []byte(ck.lv+"/x/"), payload)
				m.ID.SetTime(now - int64(r.Intn(1000)))
				m.TTL = uint32(100000 + r.Intn(1000))
				if err := st.Store(m); err != nil {
					rec.Violation(ci, "conc/store-error", err.Error(), nil)
					return
				}
				model[ck] = append(model[ck], &stored{contract: c, levels: lv, t: m.ID.Time(), ttl: m.TTL, payload: payload, id: append(message.ID(nil), m.ID...), channel: string(m.Channel)})
			}
			sort.Slice(model[ck], func(i, j int) bool { return bytes.Compare(model[ck][i].id, model[ck][j].id) < 0 }) // newest first
		}
	}
	var stop int32
	var wwg sync.WaitGroup
	wwg.Add(1)
	go func() { // unrelated stores go on while the queries run
		defer wwg.Done()
		for i := 0; atomic.LoadInt32(&stop) == 0; i++ {
			m := message.New(ssidOf(contracts[i%2], []string{"w", "z"}), []byte("w/z/"), bytes.Repeat([]byte{'W'}, 50+i%2000))
			m.TTL = 100000
			st.Store(m)
			time.Sleep(200 * time.Microsecond)
		}
	}()
	per := vk.N(150, 1500)
	var wg sync.WaitGroup
	var mu sync.Mutex
	bad := ""
	var compared int64
	for g := 0; g < 8; g++ {
		gr := vk.NewRand(vk.Seed(), fmt.Sprintf("C06conc-g%d", g), ci)
		ck := keys[(g*3+ci)%len(keys)]
		wg.Add(1)
		go func(g int, gr *vk.Rand, ck chanKey) {
			defer wg.Done()
			all := model[ck]
			for q := 0; q < per; q++ {
				limit := []int{1, 2, 3, 5, 100}[gr.Intn(5)]
				want := all
				size := 0
				for i, s := range all {
					size += len(s.payload) + len(s.id) + len(s.channel)
					if i >= limit || size > replyCap {
						want = all[:i]
						break
					}
				}
				got, err := st.Query(ssidOf(ck.c, []string{ck.lv}), time.Unix(0, 0), time.Unix(0, 0), nil, limit)
				why := ""
				if err != nil {
					why = "query error: " + err.Error()
				} else if len(got) != len(want) {
					why = fmt.Sprintf("%d messages returned, the model answer has %d", len(got), len(want))
				} else {
					ws := map[string]*stored{}
					for _, s := range want {
						ws[string(s.id)] = s
					}
					for _, m := range got {
						s, ok := ws[string(m.ID)]
						switch {
						case !ok:
							why = fmt.Sprintf("returned a message that is not in the answer: channel %q payload %.30q", m.Channel, m.Payload)
						case string(m.Channel) != s.channel || !bytes.Equal(m.Payload, s.payload) || m.TTL != s.ttl:
							why = fmt.Sprintf("message came back altered: channel %q (stored %q) payload %.30q (stored %.30q) ttl %d (stored %d)", m.Channel, s.channel, m.Payload, s.payload, m.TTL, s.ttl)
						}
					}
				}
				atomic.AddInt64(&compared, 1)
				if why != "" {
					mu.Lock()
					if bad == "" {
						bad = fmt.Sprintf("provider %s, goroutine %d querying contract %x channel %s/ limit %d while 7 others query their channels: %s", kind, g, ck.c, ck.lv, limit, why)
					}
					mu.Unlock()
					return
				}
			}
		}(g, gr, ck)
	}
	wg.Wait()
	atomic.StoreInt32(&stop, 1)
	wwg.Wait()
	rec.Add("concurrent_query_comparisons", compared)
	rec.Case(vk.Hash("c06conc", kind, vk.Seed(), ci), true)
	if bad != "" {
		rec.Violation(ci, "conc/wrong-answer/"+kind, bad, map[string]interface{}{"provider": kind})
	}
	if rec.WantSample() {
		rec.Sample(map[string]interface{}{"case": ci, "provider": kind, "goroutines": 8, "queries_each": per})
	}
}
