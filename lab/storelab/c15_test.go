//go:build verif

// C15 — stored messages survive broker restarts and crashes (DESIGN §5 C15).
// A child process stores into a real storage.SSD and reports TRY/ACK lines; the parent SIGKILLs it
// after a seeded number of acknowledgements or at a seeded instant, or stops it cleanly; after
// several cycles on one directory a fresh process reads everything back: ACK ⊆ READ ⊆ TRY.
package storelab

import (
	"bufio"
	"bytes"
	"encoding/hex"
	"fmt"
	"io"
	"os"
	"os/exec"
	"strconv"
	"strings"
	"sync"
	"sync/atomic"
	"syscall"
	"testing"
	"time"

	"github.com/emitter-io/emitter/internal/message"
	"github.com/emitter-io/emitter/internal/provider/storage"
	"github.com/emitter-io/emitter/verif/lab/vk"
)

const c15Contract = 0x0c150c15

// TestC15Child is the storing / reading child (selected through the environment).
func TestC15Child(t *testing.T) {
	mode := os.Getenv("VERIF_C15_MODE")
	if mode == "" {
		t.Skip("child only")
	}
	dir := os.Getenv("VERIF_C15_DIR")
	out := bufio.NewWriter(os.Stdout)
	s := storage.NewSSD(nil)
	if err := s.Configure(map[string]interface{}{"dir": dir}); err != nil {
		fmt.Fprintf(out, "OPENFAIL %v\n", err)
		out.Flush()
		os.Exit(3)
	}
	fmt.Fprintln(out, "OPEN")
	out.Flush()
	switch mode {
	case "store":
		tag := os.Getenv("VERIF_C15_TAG")
		writers, _ := strconv.Atoi(os.Getenv("VERIF_C15_WRITERS"))
		if writers < 1 {
			writers = 1
		}
		batch, _ := strconv.Atoi(os.Getenv("VERIF_C15_BATCH"))
		if batch < 1 {
			batch = 1
		}
		var omu sync.Mutex
		emit := func(format string, a ...interface{}) {
			omu.Lock()
			fmt.Fprintf(out, format, a...)
			out.Flush()
			omu.Unlock()
		}
		var stopped int32
		for w := 0; w < writers; w++ {
			go func(w int) {
				// batch > 1: the TRY lines of a batch are written (and flushed) first, then its messages are stored back to back
				// without touching the shared output in between, so that the Store calls of the writers really overlap, then
				// the ACK lines follow. An ACK is still only written after its Store has returned, a TRY before it was called.
				for i := 0; atomic.LoadInt32(&stopped) == 0; {
					var ms []*message.Message
					var tries string
					for b := 0; b < batch; b++ {
						lv := []string{"a", []string{"x", "y", "z"}[i%3]}
						if i%4 == 0 {
							lv = lv[:1]
						}
						ch := strings.Join(lv, "/") + "/"
						fill := i % 97
						if batch > 1 && i%5 == 0 {
							fill = 500 + (i*37)%3000
						}
						if i%11 == 3 { // a body that does not compress (hex of a running hash), 5-9 KB
							fill = 0
						}
						body := strings.Repeat(string(rune('a'+w%26)), fill)
						if i%11 == 3 {
							var sb strings.Builder
							x := uint64(i)*0x9e3779b97f4a7c15 + uint64(w)
							for sb.Len() < 5000+(i%4)*1300 {
								x ^= x << 13
								x ^= x >> 7
								x ^= x << 17
								sb.WriteString(strconv.FormatUint(x, 36))
							}
							body = sb.String()
						}
						m := message.New(ssidOf(c15Contract, lv), []byte(ch), []byte(fmt.Sprintf("%s-w%d-%d-%s", tag, w, i, body)))
						m.TTL = uint32(1000000 + i%1000)
						tries += fmt.Sprintf("TRY %s %s %d %s\n", hex.EncodeToString(m.ID), ch, m.TTL, m.Payload)
						ms = append(ms, m)
						i++
					}
					emit("%s", tries)
					var acks string
					for _, m := range ms {
						if err := s.Store(m); err != nil {
							emit("STOREERR %v\n", err)
							if atomic.LoadInt32(&stopped) != 0 {
								return
							}
							continue
						}
						acks += fmt.Sprintf("ACK %s\n", hex.EncodeToString(m.ID))
					}
					emit("%s", acks)
				}
			}(w)
		}
		io.Copy(io.Discard, os.Stdin) // stdin closed = clean stop request, while the writers are still storing
		s.Close()
		atomic.StoreInt32(&stopped, 1)
		emit("CLOSED\n")
		os.Exit(0)
	case "read":
		var cont message.ID
		for page := 0; page < 100000; page++ {
			f, err := s.Query(ssidOf(c15Contract, []string{"a"}), time.Unix(0, 0), time.Unix(0, 0), cont, 200)
			if err != nil {
				fmt.Fprintf(out, "QUERYERR %v\n", err)
				break
			}
			if len(f) == 0 {
				break
			}
			cont = nil
			for _, m := range f {
				fmt.Fprintf(out, "READ %s %s %d %s\n", hex.EncodeToString(m.ID), m.Channel, m.TTL, m.Payload)
				if cont == nil || bytes.Compare(m.ID, cont) > 0 {
					cont = append(message.ID(nil), m.ID...)
				}
			}
		}
		s.Close()
		fmt.Fprintln(out, "DONE")
		out.Flush()
		os.Exit(0)
	}
}

type c15Msg struct{ ch, ttl, payload string }

func TestC15(t *testing.T) {
	rec := vk.New("C15", "kill")
	defer rec.Finish(t)
	rec.Rule("case = one directory: 3-8 cycles of a child process storing into a real storage.SSD (TRY line, Store, ACK line, each flushed; 1, 4 or 8 concurrent writer goroutines, the 8 reporting in batches of 16 so that their Store calls overlap) ended by SIGKILL after a seeded number of acknowledgements, by SIGKILL at a seeded instant (so kills land inside Store), or by a clean stop; " +
		"then a fresh process pages through Query with continuation to exhaustion; checked: the store reopens every time, ACK ⊆ READ ⊆ TRY, id/channel/payload/ttl of every acknowledged message identical; non-trivial = directories with >=2 SIGKILL cycles and >=100 acknowledged stores; distinct = (kill plan, acknowledged count per cycle)")
	self := os.Getenv("VERIF_BIN")
	if self == "" {
		self, _ = os.Executable()
	}
	n := vk.N(16, 300)
	for ci := 0; ci < n; ci++ {
		if vk.Mine(ci) {
			runC15(rec, ci, self)
		}
	}
}

func runC15(rec *vk.Rec, ci int, self string) {
	r := vk.NewRand(vk.Seed(), "C15", ci)
	dir, err := os.MkdirTemp(os.Getenv("VERIF_SCRATCH"), "c15-")
	if err != nil {
		rec.Inconclusive(err.Error())
		return
	}
	defer os.RemoveAll(dir)
	tried := map[string]c15Msg{}
	acked := map[string]bool{}
	reused, reusedAcked := "", false
	var plan []string
	kills, totalAck := 0, 0
	fail := func(kind, d string) {
		rec.Violation(ci, kind, fmt.Sprintf("directory case %d plan %v: %s", ci, plan, d), map[string]interface{}{"plan": plan})
	}
	cycles := r.Range(3, 8)
	for cy := 0; cy < cycles; cy++ {
		mode := r.Intn(3) // 0 kill after k acks, 1 kill at instant, 2 clean stop
		k := r.Range(1, 400)
		delay := time.Duration(r.Range(200, 60000)) * time.Microsecond
		cmd := exec.Command(self, "-test.run", "^TestC15Child$", "-test.timeout", "0")
		writers, batch := 1, 1
		switch r.Intn(4) {
		case 1:
			writers = 4 // concurrent publishers: a clean stop then lands while Store calls are in flight
		case 2, 3:
			writers, batch = 8, 16 // Store calls of several writers overlapping for real (batched reporting)
			k *= 8
		}
		cmd.Env = append(os.Environ(), "VERIF_C15_MODE=store", "VERIF_C15_DIR="+dir, fmt.Sprintf("VERIF_C15_TAG=d%dc%d", ci, cy), fmt.Sprintf("VERIF_C15_WRITERS=%d", writers), fmt.Sprintf("VERIF_C15_BATCH=%d", batch), "VERIF_OUT=")
		stdin, _ := cmd.StdinPipe()
		stdout, _ := cmd.StdoutPipe()
		cmd.Stderr = nil
		if err := cmd.Start(); err != nil {
			rec.Inconclusive(err.Error())
			return
		}
		sc := bufio.NewScanner(stdout)
		sc.Buffer(make([]byte, 1<<20), 1<<20)
		opened := false
		openFail := "the child never reported OPEN"
		acks := 0
		var timer *time.Timer
		killed := false
		doKill := func() {
			if !killed {
				killed = true
				cmd.Process.Signal(syscall.SIGKILL)
			}
		}
		watchdog := time.AfterFunc(120*time.Second, doKill)
		for sc.Scan() {
			line := sc.Text()
			switch {
			case line == "OPEN":
				opened = true
				if mode == 1 {
					timer = time.AfterFunc(delay, doKill)
				}
				if mode == 2 {
					// clean stop after some work
					timer = time.AfterFunc(delay, func() { stdin.Close() })
				}
			case strings.HasPrefix(line, "OPENFAIL"):
				openFail = line
			case strings.HasPrefix(line, "TRY "):
				p := strings.SplitN(line, " ", 5)
				if len(p) == 5 {
					nm := c15Msg{p[2], p[3], p[4]}
					if old, dup := tried[p[1]]; dup && old != nm && reused == "" {
						// the same id handed out for two different messages (e.g. by two lives of the process): the second
						// store overwrites the first under its key
						reused = fmt.Sprintf("id %s was given to %v and, later, to %v", p[1], old, nm)
						if acked[p[1]] {
							reusedAcked = true
						}
					}
					tried[p[1]] = nm
				}
			case strings.HasPrefix(line, "ACK "):
				id := strings.TrimPrefix(line, "ACK ")
				if _, ok := tried[id]; ok { // a torn last line (killed mid-write) is not an acknowledgement
					if len(id) >= 32 {
						acked[id] = true
						acks++
					}
				}
				if mode == 0 && acks >= k {
					doKill()
				}
			case strings.HasPrefix(line, "STOREERR"):
				rec.Inc("store_errors")
			}
		}
		if timer != nil {
			timer.Stop()
		}
		watchdog.Stop()
		cmd.Wait()
		if !opened && !strings.HasPrefix(openFail, "OPENFAIL") {
			// neither OPEN nor OPENFAIL before the child ended: the 120 s watchdog ended it - nothing was observed about reopening
			rec.Inconclusive("the storing child reported neither OPEN nor OPENFAIL within its watchdog")
			return
		}
		if !opened {
			cls := "other"
			if strings.Contains(openFail, "while opening memtables") {
				cls = "badger-memtable-file-left-by-kill"
			}
			fail("store-does-not-reopen/"+cls, fmt.Sprintf("cycle %d (after plan %v): the store did not reopen: %s", cy, plan, openFail))
			rec.Case(vk.Hash(strings.Join(plan, ","), "openfail"), true)
			return
		}
		if mode != 2 {
			kills++
		}
		totalAck += acks
		plan = append(plan, fmt.Sprintf("%s(w%d):%d", []string{"kill-after-acks", "kill-at-instant", "clean-stop"}[mode], writers, acks))
		rec.Inc("cycles_" + []string{"kill_after_acks", "kill_at_instant", "clean_stop"}[mode])
	}
	if reused != "" && reusedAcked {
		fail("acknowledged-message-lost", "an acknowledged message was overwritten because its id was handed out again: "+reused)
		rec.Case(vk.Hash(strings.Join(plan, ","), "idreuse"), true)
		return
	}
	// a torn ACK line: "ACK <prefix of id>" — acknowledged ids must be complete ids that were tried; handled above.
	// read back in a fresh process
	cmd := exec.Command(self, "-test.run", "^TestC15Child$", "-test.timeout", "0")
	cmd.Env = append(os.Environ(), "VERIF_C15_MODE=read", "VERIF_C15_DIR="+dir, "VERIF_OUT=")
	var outb bytes.Buffer
	cmd.Stdout = &outb
	done := make(chan error, 1)
	if err := cmd.Start(); err != nil {
		rec.Inconclusive(err.Error())
		return
	}
	go func() { done <- cmd.Wait() }()
	select {
	case <-done:
	case <-time.After(300 * time.Second):
		cmd.Process.Kill()
		rec.Inconclusive("reader child watchdog")
		return
	}
	read := map[string]c15Msg{}
	complete := false
	for _, line := range strings.Split(outb.String(), "\n") {
		switch {
		case strings.HasPrefix(line, "OPENFAIL"):
			fail("store-does-not-reopen", line)
			return
		case strings.HasPrefix(line, "QUERYERR"):
			fail("query-error", line)
		case line == "DONE":
			complete = true
		case strings.HasPrefix(line, "READ "):
			p := strings.SplitN(line, " ", 5)
			if len(p) == 5 {
				if _, dup := read[p[1]]; dup {
					fail("read-twice", "id "+p[1]+" returned on two pages")
				}
				read[p[1]] = c15Msg{p[2], p[3], p[4]}
			}
		}
	}
	if !complete {
		rec.Inconclusive("reader child did not finish: " + tail(outb.String()))
		return
	}
	rec.Add("acknowledged_stores", int64(len(acked)))
	rec.Add("tried_stores", int64(len(tried)))
	rec.Add("read_back", int64(len(read)))
	for id := range acked {
		g, ok := read[id]
		if !ok {
			fail("acknowledged-message-lost", fmt.Sprintf("id %s (%v) was acknowledged before the process stopped but is not returned after restart (%d acknowledged, %d read)", id, tried[id], len(acked), len(read)))
			break
		}
		if g != tried[id] {
			fail("acknowledged-message-altered", fmt.Sprintf("id %s stored %v read %v", id, tried[id], g))
			break
		}
	}
	for id, g := range read {
		w, ok := tried[id]
		if !ok {
			fail("message-never-stored-appears", fmt.Sprintf("id %s %v", id, g))
			break
		}
		if g != w {
			fail("message-altered", fmt.Sprintf("id %s stored %v read %v", id, w, g))
			break
		}
	}
	rec.Case(vk.Hash(strings.Join(plan, ",")), kills >= 2 && totalAck >= 100)
	if rec.WantSample() {
		rec.Sample(map[string]interface{}{"case": ci, "plan": plan, "acknowledged": len(acked), "tried": len(tried), "read_back": len(read)})
	}
}

func tail(s string) string {
	if len(s) > 300 {
		return s[len(s)-300:]
	}
	return s
}

var _ = strconv.Itoa
