//go:build verif

// C06 — history queries return exactly the stored, live, matching messages (DESIGN §5 C06).
package storelab

import (
	"bytes"
	"fmt"
	"os"
	"sort"
	"strings"
	"testing"
	"time"

	"github.com/emitter-io/emitter/internal/message"
	"github.com/emitter-io/emitter/internal/network/mqtt"
	"github.com/emitter-io/emitter/internal/provider/storage"
	"github.com/emitter-io/emitter/internal/security"
	"github.com/emitter-io/emitter/internal/security/hash"
	"github.com/emitter-io/emitter/verif/lab/vk"
)

type stored struct {
	contract uint32
	levels   []string
	t        int64
	ttl      uint32
	payload  []byte
	id       message.ID
	channel  string
	idx      int
}

func ssidOf(contract uint32, levels []string) message.Ssid {
	ch := security.ParseChannel([]byte("k/" + strings.Join(levels, "/") + "/"))
	if ch.ChannelType == security.ChannelInvalid {
		panic("bad channel " + strings.Join(levels, "/"))
	}
	return message.NewSsid(contract, ch.Query)
}

func levelMatch(f, ch []string) bool {
	if len(f) > len(ch) {
		return false
	}
	for i := range f {
		if f[i] != "+" && f[i] != "#" && f[i] != ch[i] {
			return false
		}
	}
	return true
}

func newStore(kind string, retain uint32) (storage.Storage, func(), func() (storage.Storage, error), error) {
	cfg := map[string]interface{}{}
	if retain != 0 {
		cfg["retain"] = float64(retain)
	}
	switch kind {
	case "inmemory":
		s := storage.NewInMemory(nil)
		if err := s.Configure(cfg); err != nil {
			return nil, nil, nil, err
		}
		return s, func() { s.Close() }, nil, nil
	default:
		d, err := os.MkdirTemp(os.Getenv("VERIF_SCRATCH"), "c06-")
		if err != nil {
			return nil, nil, nil, err
		}
		cur := storage.NewSSD(nil)
		cfg["dir"] = d
		if err := cur.Configure(cfg); err != nil {
			os.RemoveAll(d)
			return nil, nil, nil, err
		}
		// reopen: close the provider and open a new one on the same directory (a broker restart)
		reopen := func() (storage.Storage, error) {
			cur.Close()
			cur = storage.NewSSD(nil)
			if err := cur.Configure(cfg); err != nil {
				return nil, err
			}
			return cur, nil
		}
		return cur, func() { cur.Close(); os.RemoveAll(d) }, reopen, nil
	}
}

// edgeLevels are channel level names whose 32-bit hash has a low byte of 0xff / 0x00 (the last byte of a message id is the
// low byte of the hash of the last level: continuation arithmetic on ids meets its carry cases there) - found by search.
var edgeLevels = func() []string {
	var ff, zz string
	for i := 0; ff == "" || zz == ""; i++ {
		n := fmt.Sprintf("e%d", i)
		switch hash.OfString(n) & 0xff {
		case 0xff:
			if ff == "" {
				ff = n
			}
		case 0x00:
			if zz == "" {
				zz = n
			}
		}
	}
	return []string{ff, zz}
}()

var replyCap = mqtt.MaxMessageSize // the reply-size cap is the code's own constant (the statement names no number)

func TestC06(t *testing.T) {
	rec := vk.New("C06", "query")
	defer rec.Finish(t)
	rec.Rule("case = one store history (40-80 messages, the disk provider closed and reopened on the same directory at seeded points, last levels whose hash ends in 0xff/0x00: two tenants whose contract^hash(level1) key prefixes collide, nested channels, many messages per second, live and expired, retained messages under a configured retention period, payloads that hit the 64 KiB reply cap) on a real provider (inmemory / ssd) " +
		"followed by ~60 queries (filters shorter/longer than the channels, '+'/'#' levels, windows inside/overlapping/outside, limits 0,1,k,>stored,10^5, continuation driven to exhaustion); every returned frame is compared as a set with the model answer, " +
		"its order checked for non-decreasing time, pages checked for disjointness and their union for equality with the un-paged answer; non-trivial = >=10 queries with a non-empty expected answer, >=1 query cut by the limit, >=1 paginated query; distinct = hash of stores and queries")
	n := vk.N(120, 5000)
	for ci := 0; ci < n; ci++ {
		if vk.Mine(ci) {
			runC06(rec, ci)
		}
	}
}

func runC06(rec *vk.Rec, ci int) {
	r := vk.NewRand(vk.Seed(), "C06", ci)
	kind := "inmemory"
	if ci%2 == 1 {
		kind = "ssd"
	}
	retain := []uint32{0, 3600, 86400, 40000}[r.Intn(4)] // configured retention for 'retained' messages (0 = default 30 days)
	effRetain := retain
	if effRetain == 0 {
		effRetain = 2592000
	}
	st, cleanup, reopen, err := newStore(kind, retain)
	if err != nil {
		rec.Inconclusive(err.Error())
		return
	}
	defer cleanup()
	now := time.Now().Unix()
	c1 := uint32(0x51000000 | r.U32()&0xffffff)
	c2 := c1 ^ hash.OfString("a") ^ hash.OfString("b") // (c1,"a/..") and (c2,"b/..") share the 32-bit key prefix
	if c1^hash.OfString("a") != c2^hash.OfString("b") {
		panic("collision construction broken")
	}
	type tenant struct {
		c     uint32
		first string
	}
	tenants := []tenant{{c1, "a"}, {c2, "b"}, {c1, "c"}}
	sub := []string{"x", "y", "z", edgeLevels[0], edgeLevels[1]}
	reopenAt := -1
	if reopen != nil && r.Chance(70) {
		reopenAt = r.Range(10, 30) // the disk provider is closed and reopened after this many stores
	}
	var log []*stored
	var desc []string
	nst := r.Range(40, 80)
	baseT := now - int64(r.Range(3000, 20000))
	for i := 0; i < nst; i++ {
		if i == reopenAt {
			if st, err = reopen(); err != nil {
				rec.Violation(ci, "store-does-not-reopen", err.Error(), map[string]interface{}{"stores": desc})
				return
			}
			desc = append(desc, "close and reopen the provider on the same directory")
			rec.Inc("reopens")
		}
		tn := tenants[r.Intn(10)%3]
		if r.Chance(70) {
			tn = tenants[r.Intn(2)]
		}
		lv := []string{tn.first}
		for d := r.Intn(3); d > 0; d-- {
			if d == 1 && r.Chance(35) { // last level: a name whose hash ends in 0xff / 0x00
				lv = append(lv, edgeLevels[r.Intn(2)])
				continue
			}
			lv = append(lv, sub[r.Intn(len(sub))])
		}
		tm := baseT + int64(r.Intn(6)) // many messages within one second
		if r.Chance(20) {
			tm = baseT - int64(r.Range(1, 2000))
		}
		var ttl uint32
		live := r.Chance(80)
		if live {
			ttl = uint32(now-tm) + uint32(r.Range(7200, 100000))
		} else {
			age := now - tm
			if age <= 7300 {
				live = true
				ttl = uint32(age) + 9000
			} else {
				ttl = uint32(r.Range(0, int(age-7200)))
			}
		}
		storeTTL := ttl
		if r.Chance(20) { // a retained message: stored with the configured retention
			storeTTL = message.RetainedTTL
			ttl = effRetain
			age := now - tm
			switch {
			case age+7200 <= int64(effRetain):
				live = true
			case age >= int64(effRetain)+7200:
				live = false
			default: // too close to the expiry instant: move the message so that it is clearly expired
				tm = now - int64(effRetain) - 7200 - int64(r.Intn(1000))
				live = false
			}
		}
		size := r.Range(1, 200)
		if r.Chance(12) {
			size = r.Range(15000, 30000)
		}
		payload := bytes.Repeat([]byte{byte('A' + i%26)}, size)
		if r.Chance(40) { // incompressible content: what the store keeps is then about as large as the payload
			payload = r.Bytes(size)
		}
		copy(payload, fmt.Sprintf("m%d-", i))
		ssid := ssidOf(tn.c, lv)
		m := message.New(ssid, []byte(strings.Join(lv, "/")+"/"), payload)
		m.ID.SetTime(tm)
		m.TTL = storeTTL
		s := &stored{contract: tn.c, levels: lv, t: tm, ttl: ttl, payload: payload, id: append(message.ID(nil), m.ID...), channel: string(m.Channel), idx: i}
		if err := st.Store(m); err != nil {
			rec.Violation(ci, "store-error", err.Error(), nil)
			return
		}
		if live {
			log = append(log, s)
		}
		desc = append(desc, fmt.Sprintf("store c=%x %s t=now%+d ttl=%d retained=%v size=%d live=%v", tn.c, s.channel, tm-now, ttl, storeTTL == message.RetainedTTL, size, live))
		rec.Inc("stores")
	}
	if reopen != nil && r.Chance(40) {
		if st, err = reopen(); err != nil {
			rec.Violation(ci, "store-does-not-reopen", err.Error(), map[string]interface{}{"stores": desc})
			return
		}
		desc = append(desc, "close and reopen the provider on the same directory (before the queries)")
		rec.Inc("reopens")
	}
	// model answer
	answer := func(contract uint32, f []string, from, until int64, cont message.ID, limit int) []*stored {
		var cand []*stored
		for _, s := range log {
			if s.contract != contract || !levelMatch(f, s.levels) {
				continue
			}
			if s.t < from || (until != 0 && s.t > until) {
				continue
			}
			if cont != nil && bytes.Compare(s.id, cont) <= 0 {
				continue
			}
			cand = append(cand, s)
		}
		sort.Slice(cand, func(i, j int) bool { return bytes.Compare(cand[i].id, cand[j].id) < 0 }) // newest first
		var out []*stored
		size := 0
		for _, s := range cand {
			if len(out) >= limit {
				break
			}
			size += len(s.payload) + len(s.id) + len(s.channel)
			if size > replyCap {
				break
			}
			out = append(out, s)
		}
		return out
	}
	violated := false
	fail := func(kind, d string) {
		violated = true
		rec.Violation(ci, kind+"/"+map[bool]string{true: "ssd", false: "inmemory"}[ci%2 == 1], fmt.Sprintf("provider %s: %s", st.Name(), d), map[string]interface{}{"provider": st.Name(), "stores": desc})
	}
	byID := map[string]*stored{}
	for _, s := range log {
		byID[string(s.id)] = s
	}
	compare := func(q string, got message.Frame, want []*stored) bool {
		rec.Inc("query_comparisons")
		gs := map[string]int{}
		for _, m := range got {
			gs[string(m.ID)]++
		}
		for _, m := range got {
			s, ok := byID[string(m.ID)]
			if !ok {
				fail("returned-unknown-or-expired-message", fmt.Sprintf("%s returned id %x (channel %s) which is not a live stored message of the model", q, []byte(m.ID), m.Channel))
				return false
			}
			if string(m.Channel) != s.channel || !bytes.Equal(m.Payload, s.payload) || m.TTL != s.ttl {
				fail("returned-message-altered", fmt.Sprintf("%s: message %d came back with channel %q ttl %d len %d", q, s.idx, m.Channel, m.TTL, len(m.Payload)))
				return false
			}
			if gs[string(m.ID)] > 1 {
				fail("duplicate-in-frame", fmt.Sprintf("%s: message %d twice in one frame", q, s.idx))
				return false
			}
		}
		ws := map[string]bool{}
		for _, s := range want {
			ws[string(s.id)] = true
			if gs[string(s.id)] == 0 {
				fail("missing-message", fmt.Sprintf("%s: model expects message %d (%s t=now%+d) but it was not returned; returned %d, expected %d", q, s.idx, s.channel, s.t-now, len(got), len(want)))
				return false
			}
		}
		for _, m := range got {
			if !ws[string(m.ID)] {
				s := byID[string(m.ID)]
				kind := "extra-message"
				if len(want) > 0 && s.contract != want[0].contract {
					kind = "message-of-another-contract"
				}
				fail(kind, fmt.Sprintf("%s: returned message %d (c=%x %s t=now%+d) is not in the model answer (returned %d, expected %d)", q, s.idx, s.contract, s.channel, s.t-now, len(got), len(want)))
				return false
			}
		}
		for i := 1; i < len(got); i++ {
			if got[i].Time() < got[i-1].Time() {
				fail("not-ordered-by-time", fmt.Sprintf("%s: frame not ordered by non-decreasing time", q))
				return false
			}
		}
		return true
	}
	nonEmpty, cut, paged := 0, 0, 0
	var qdesc []string
	filtersFor := func(tn tenant) [][]string {
		return [][]string{{tn.first}, {tn.first, "x"}, {tn.first, "+"}, {tn.first, "x", "y"}, {tn.first, "+", "z"}, {tn.first, "#"}, {tn.first, "y", "+", "x"}, {tn.first, "+", "+"}, {tn.first, "q"},
			{tn.first, edgeLevels[0]}, {tn.first, "+", edgeLevels[0]}, {tn.first, edgeLevels[1]}, {tn.first, "x", edgeLevels[1]}, {tn.first, edgeLevels[0], "+"}}
	}
	for qi := 0; qi < 60 && !violated; qi++ {
		tn := tenants[r.Intn(len(tenants))]
		fs := filtersFor(tn)
		f := fs[r.Intn(len(fs))]
		var from, until int64
		switch r.Intn(7) {
		case 0:
			from = baseT
		case 1:
			until = baseT + 2
		case 2:
			from, until = baseT+1, baseT+3
		case 3:
			from = now + 5000 // outside
		case 4:
			until = baseT - 5000 // before everything recent
		case 5:
			from, until = baseT-1000, baseT
		}
		limit := []int{0, 1, 2, 3, 5, 10, 100, 100000}[r.Intn(8)]
		tm := func(v int64) time.Time { return time.Unix(v, 0) }
		q := fmt.Sprintf("query c=%x filter=%s from=%d until=%d limit=%d", tn.c, strings.Join(f, "/"), from, until, limit)
		qdesc = append(qdesc, q)
		got, err := st.Query(ssidOf(tn.c, f), tm(from), tm(until), nil, limit)
		if err != nil {
			fail("query-error", err.Error())
			break
		}
		want := answer(tn.c, f, from, until, nil, limit)
		full := answer(tn.c, f, from, until, nil, 1<<30)
		if len(want) > 0 {
			nonEmpty++
		}
		if len(want) < len(answer(tn.c, f, from, until, nil, 1<<30)) || len(full) > len(want) {
			cut++
		}
		if !compare(q, got, want) {
			break
		}
		// continuation to exhaustion, from this page on
		if limit > 0 && limit < 100 && len(got) > 0 && r.Chance(60) {
			paged++
			seen := map[string]bool{}
			var all []*stored
			page := got
			pw := want
			var cont message.ID
			for guard := 0; guard < 200; guard++ {
				for _, m := range page {
					if seen[string(m.ID)] {
						fail("same-message-on-two-pages", fmt.Sprintf("%s: message %d appears on two continuation pages", q, byID[string(m.ID)].idx))
						break
					}
					seen[string(m.ID)] = true
				}
				if violated {
					break
				}
				all = append(all, pw...)
				if len(page) == 0 {
					break
				}
				// continue from the oldest message of the page in key order
				cont = nil
				for _, m := range page {
					if cont == nil || bytes.Compare(m.ID, cont) > 0 {
						cont = append(message.ID(nil), m.ID...)
					}
				}
				page, err = st.Query(ssidOf(tn.c, f), tm(from), tm(until), cont, limit)
				if err != nil {
					fail("query-error", err.Error())
					break
				}
				pw = answer(tn.c, f, from, until, cont, limit)
				rec.Inc("continuation_pages")
				if !compare(q+fmt.Sprintf(" cont=%x", []byte(cont[4:12])), page, pw) {
					break
				}
			}
			if !violated {
				// the union of the model pages is every live matching message in the window, unless a single message exceeds the cap
				allWant := map[string]bool{}
				for _, s := range log {
					if s.contract == tn.c && levelMatch(f, s.levels) && s.t >= from && (until == 0 || s.t <= until) {
						allWant[string(s.id)] = true
					}
				}
				if len(seen) != len(allWant) {
					big := false
					for id := range allWant {
						s := byID[id]
						if len(s.payload)+len(s.id)+len(s.channel) > replyCap {
							big = true
						}
					}
					if !big {
						fail("pagination-incomplete", fmt.Sprintf("%s: paging to exhaustion returned %d distinct messages, %d match", q, len(seen), len(allWant)))
					}
				}
			}
		}
	}
	h := []interface{}{kind, retain}
	for _, d := range desc {
		h = append(h, d)
	}
	for _, d := range qdesc {
		h = append(h, d)
	}
	rec.Case(vk.Hash(h...), nonEmpty >= 10 && cut >= 1 && paged >= 1)
	if rec.WantSample() {
		rec.Sample(map[string]interface{}{"case": ci, "provider": kind, "stores": desc[:6], "queries": qdesc[:6], "n_stores": len(desc), "n_queries": len(qdesc), "nonempty_queries": nonEmpty})
	}
}
