module github.com/emitter-io/emitter/verif

go 1.24

toolchain go1.24.0

require (
	github.com/anishathalye/porcupine v1.3.0
	github.com/eclipse/paho.mqtt.golang v1.5.0
	github.com/emitter-io/config v1.0.0
	github.com/emitter-io/emitter v0.0.0
	github.com/golang/snappy v0.0.4
	github.com/kelindar/binary v1.0.19
	github.com/weaveworks/mesh v0.0.0-20191105120815-58dbcc3e8e63
)

require (
	github.com/andybalholm/brotli v1.1.1 // indirect
	github.com/axiomhq/hyperloglog v0.2.3 // indirect
	github.com/beorn7/perks v1.0.1 // indirect
	github.com/cespare/xxhash v1.1.0 // indirect
	github.com/cespare/xxhash/v2 v2.3.0 // indirect
	github.com/coocood/freecache v1.2.4 // indirect
	github.com/davecgh/go-spew v1.1.1 // indirect
	github.com/dgraph-io/badger/v3 v3.2103.5 // indirect
	github.com/dgraph-io/ristretto v0.2.0 // indirect
	github.com/dgryski/go-metro v0.0.0-20250106013310-edb8663e5e33 // indirect
	github.com/dustin/go-humanize v1.0.1 // indirect
	github.com/emitter-io/address v1.0.1 // indirect
	github.com/emitter-io/stats v1.0.3 // indirect
	github.com/gogo/protobuf v1.3.2 // indirect
	github.com/golang/groupcache v0.0.0-20241129210726-2c02b8208cf8 // indirect
	github.com/golang/protobuf v1.5.4 // indirect
	github.com/google/flatbuffers v25.2.10+incompatible // indirect
	github.com/gorilla/websocket v1.5.3 // indirect
	github.com/kamstrup/intmap v0.5.1 // indirect
	github.com/kelindar/process v0.0.0-20170730150328-69a29e249ec3 // indirect
	github.com/kelindar/rate v1.0.0 // indirect
	github.com/kelindar/tcp v1.0.0 // indirect
	github.com/klauspost/compress v1.17.11 // indirect
	github.com/munnerz/goautoneg v0.0.0-20191010083416-a7dc8b61c822 // indirect
	github.com/pkg/errors v0.9.1 // indirect
	github.com/pmezard/go-difflib v1.0.0 // indirect
	github.com/prometheus/client_golang v1.20.5 // indirect
	github.com/prometheus/client_model v0.6.1 // indirect
	github.com/prometheus/common v0.62.0 // indirect
	github.com/prometheus/procfs v0.15.1 // indirect
	github.com/stretchr/objx v0.5.2 // indirect
	github.com/stretchr/testify v1.10.0 // indirect
	github.com/tidwall/btree v1.7.0 // indirect
	github.com/tidwall/buntdb v1.3.2 // indirect
	github.com/tidwall/gjson v1.18.0 // indirect
	github.com/tidwall/grect v0.1.4 // indirect
	github.com/tidwall/match v1.1.1 // indirect
	github.com/tidwall/pretty v1.2.1 // indirect
	github.com/tidwall/rtred v0.1.2 // indirect
	github.com/tidwall/tinyqueue v0.1.1 // indirect
	github.com/valyala/bytebufferpool v1.0.0 // indirect
	github.com/valyala/fasthttp v1.58.0 // indirect
	go.opencensus.io v0.24.0 // indirect
	golang.org/x/crypto v0.33.0 // indirect
	golang.org/x/net v0.35.0 // indirect
	golang.org/x/sys v0.30.0 // indirect
	golang.org/x/text v0.22.0 // indirect
	google.golang.org/protobuf v1.36.5 // indirect
	gopkg.in/alexcesaro/statsd.v2 v2.0.0 // indirect
	gopkg.in/yaml.v3 v3.0.1 // indirect
)

replace github.com/emitter-io/emitter => /repo
